"""C01 - caching is transparent."""
import coreprop as cp
import core
import gen
import lib
from witnesses import WITNESSES, corpus_for

PID = "C01"
COQ_TARGETS = cp.COQ_TARGETS + ["Proofs/CoveredDefs.vo"]
KNOWN = ["D19", "D1", "D3", "D4", "D9", "D21", "D24", "D26"]


def transparency_failures(scn, il=None):
    """implementation-only oracle: each evaluation on the long-lived graph returns the value, or
    fails, as a freshly built copy of the graph does with caching disabled for that dictionary"""
    raws = []
    if il is None:
        il = core.run_impl(scn, raw_out=raws)
    out = []
    memo = {}
    for j, (op, line) in enumerate(zip(scn["ops"], il)):
        if op[0] != "evaluate":
            continue
        key = (op[1], repr(op[4]))
        if key not in memo:
            memo[key] = cp.fresh_eval(scn, op[1], op[4], raw=True)
        fl, fr = memo[key]
        a, b = cp.split(line)[0], cp.split(fl)[0]
        if a == b or (not a.startswith("ok:") and not b.startswith("ok:")):
            continue            # the same rendered value, or both fail (cp.same_outcome without the raw values)
        if not raws and a.startswith("ok:") and b.startswith("ok:"):
            # the observation lines came from the correspondence run: the raw values (Python ==, dictionaries regardless of key
            # order) are needed only here, where two successful evaluations are rendered differently
            core.run_impl(scn, raw_out=raws)
        if not cp.same_outcome(line, raws[j] if raws else None, fl, fr):
            out.append((j, cp.outcome(line), cp.outcome(fl)))
    return out


def strict_failures(scn, il):
    """inside the fragment `order_faithful` (see there) the unchanged library visits the parts of a graph in ONE order in keys(),
    validate() and evaluate(), and every deficiency of the family is visible to keys(): an operation on the long-lived graph
    fails with the very cause (class and key of the innermost labrea error; EvaluationError-ness) of the same operation on a
    fresh cache-free copy, whichever of several simultaneous deficiencies there are - all four methods"""
    out = []
    memo = {}
    for j, (op, line) in enumerate(zip(scn["ops"], il)):
        key = (op[0], op[1], repr(op[4]))
        if key not in memo:
            memo[key] = cp.fresh_eval(scn, op[1], op[4], method=op[0])
        a, b = cp.split(line)[0], cp.split(memo[key])[0]
        if a != b and not (a.startswith("ok:") and b.startswith("ok:")):
            out.append((j, a, b))
    return out


EFF_SWITCH = (1, 5, 3)      # atoms of LABREA / EFFECTS / DISABLED (core.RESERVED)


def eff_switch(o):
    """the value of LABREA.EFFECTS.DISABLED in dictionary o, as labrea reads it (absent = off)"""
    x = o
    for a in EFF_SWITCH:
        if not isinstance(x, dict) or a not in x:
            return False
        x = x[a]
    return bool(x)


def hold_switch(o, val):
    """copy of o with LABREA.EFFECTS.DISABLED held at val (removed when off)"""
    o = dict(o)
    lab = dict(o.get(1)) if isinstance(o.get(1), dict) else {}
    eff = dict(lab.get(5)) if isinstance(lab.get(5), dict) else {}
    if val:
        eff[3] = True
        lab[5] = eff
        o[1] = lab
    else:
        eff.pop(3, None)
        if eff:
            lab[5] = eff
        else:
            lab.pop(5, None)
        if lab:
            o[1] = lab
        else:
            o.pop(1, None)
    return o


def has_effects(scn):
    return any(d.get("effects") for d in scn["env"].values()) or \
        any(t and t[0] == "comp" and t[2] for t in list(cp.sub_exprs(scn["exprs"])) + list(cp.sub_exprs(scn["env"])))


def in_zone_d24(scn, j):
    """D24: the failure at operation j is caused by the effects switch differing along the history -
    it disappears when every earlier operation uses the failing operation's value of the switch"""
    ops = scn["ops"]
    if not has_effects(scn):
        return False
    sw = eff_switch(ops[j][4])
    if all(eff_switch(op[4]) == sw for op in ops[:j]):
        return False
    held = dict(scn, ops=[(m, i, cc, lc, hold_switch(o, sw)) for (m, i, cc, lc, o) in ops[:j]] + [ops[j]])
    return not any(jj == j for jj, _, _ in transparency_failures(held))


def cached_ids_coherent(scn):
    """each explicit cache id is used with one cached expression (datasets and their derivatives share the
    Cached node by construction): the coherence hypothesis of C01_history_transparent"""
    seen = {}
    for t in list(cp.sub_exprs(scn["exprs"])) + list(cp.sub_exprs(scn["env"])):
        if t and t[0] == "cached" and t[1] is not None:
            if seen.setdefault(t[1], repr(t[2])) != repr(t[2]):
                return False
    return True


def covered_flags(ctx, scns, name):
    """per scenario, one character per operation: '1' iff the model says the operation satisfies the
    hypotheses of C01_history_transparent (Proofs/CoveredDefs.v scohb; sound by Proofs/CoveredProofs.v)"""
    exprs = [core.coq_scenario(s).replace("run_scenario", "covered_ops", 1) for s in scns]
    outs = ctx.coq_eval(name, cp.REQ + ["Proofs.CoveredDefs"], "", exprs, shard=30)
    return [o if cached_ids_coherent(s) else "0" * len(o) for s, o in zip(scns, outs)]


# ----------------------------------------------------------------------------- cache entry points
# The scenario language builds every dataset with cache=<one recording MemoryCache instance per dataset> and every
# cached node with cached(x, <instance>).  labrea offers other PUBLIC ways to say "this dataset / node is cached (or
# not)", all of which fall under the property (the model is the same: one cache per dataset / node):
#   dataset(f, cache=<callable returning a Cache>), a configured factory kept and REUSED for several datasets
#   (memo = dataset(cache=<callable>); memo(f1); memo(g, dispatch=...); memo(options=...)(h); memo.where(...)(k)),
#   ds.set_cache(<instance> | <callable>), dataset.nocache (used once / kept and reused), cache=NoCache (the class),
#   cached(<instance>)(x) (decorator form) - built with recording caches, so they go through the correspondence;
#   and @dataset without cache=, cache=MemoryCache (the class itself), a reused dataset(cache=MemoryCache),
#   set_cache(MemoryCache), cached(x) - there labrea creates the cache itself, nothing is recorded: the transparency
#   oracle applies as it stands, the correspondence compares values / failures / body calls (cache events left out).
# A dataset description carries its entry point in env[dsid]["entry"] (+ "flavour": how the callable is spelled);
# cached nodes in env["cached_entry"][cid].  Descriptions without these keys are built exactly as before.

RECORDED_ENTRIES = ("instance", "callable", "factory", "factory", "factory_kw", "factory_where", "factory_derived", "set_cache_instance",
                    "set_cache_callable", "nocache_then_set")
UNRECORDED_ENTRIES = ("bare", "class", "factory_class", "factory_class", "set_cache_class")
NOCACHE_ENTRIES = ("nocache_instance", "nocache_prop", "nocache_factory", "nocache_class", "nocache_set")
FLAVOURS = ("function", "lambda", "partial", "class", "method", "object", "cache_class", "partial_class", "kwonly")


def entry_builder_class(base):
    class EntryBuilder(base):
        """core.Builder, except that a dataset / cached node whose description names an entry point is created through
        that entry point of labrea's public API"""

        def __init__(self, world, env):
            super().__init__(world, env)
            self.current = None         # the dataset being created (whom a cache made by a callable belongs to)
            self.factories = {}
            self.callables = {}
            self.orphans = 0

        def cache_for_current(self):
            if self.current is None:    # a callable invoked outside the creation of a dataset: nobody's cache
                self.orphans += 1
                return self.w.cache(9000 + self.orphans)
            return self.w.cache(self.current)

        def callable_cache(self, flavour):
            """ONE callable object per spelling, handed to every dataset / factory / set_cache of the scenario that uses it"""
            if flavour not in self.callables:
                self.callables[flavour] = self.new_callable(flavour)
            return self.callables[flavour]

        def new_callable(self, flavour):
            import functools
            make = self.cache_for_current
            if flavour == "function":
                def new_cache():
                    return make()
                return new_cache
            if flavour == "lambda":
                return lambda: make()
            if flavour == "partial":
                return functools.partial(lambda tag: make(), "tag")
            if flavour == "class":
                return type("PerDatasetCache", (), {"__new__": staticmethod(lambda cls: make())})
            if flavour == "object":             # an instance of a user class with __call__
                return type("CacheProvider", (), {"__call__": lambda self_: make()})()
            if flavour in ("cache_class", "partial_class"):     # a genuine user subclass of the library's cache, given as the CLASS
                cls = self.recording_cache_class()
                return cls if flavour == "cache_class" else functools.partial(cls)
            if flavour == "kwonly":             # a function whose parameters all have defaults (keyword-only ones included)
                def new_cache(tag="t", *, kind=None):
                    return make()
                return new_cache
            return self.cache_for_current       # a bound method

        def recording_cache_class(self):
            """a MemoryCache subclass whose INSTANCES record like World.cache(<the dataset being created>) does; every call of the
            class makes a new, empty cache (an instance made outside the creation of a dataset is nobody's cache)"""
            from labrea.cache import MemoryCache
            builder, world = self, self.w

            class UserCache(MemoryCache):
                def __init__(self):
                    super().__init__()
                    if builder.current is None:
                        builder.orphans += 1
                        self.cid = 9000 + builder.orphans
                    else:
                        self.cid = builder.current

                def exists(self, evaluatable, options):
                    r = super().exists(evaluatable, options)
                    world.calls.append(f"ex{self.cid}{'T' if r else 'F'}")
                    return r

                def get(self, evaluatable, options):
                    try:
                        r = super().get(evaluatable, options)
                    except Exception:
                        world.calls.append(f"get{self.cid}F")
                        raise
                    world.calls.append(f"get{self.cid}T")
                    return r

                def set(self, evaluatable, options, value):
                    super().set(evaluatable, options, value)
                    world.calls.append(f"set{self.cid}")
            return UserCache

        def factory(self, key, cache):
            from labrea import dataset
            if key not in self.factories:
                self.factories[key] = dataset(cache=cache)
            return self.factories[key]

        def dataset(self, dsid):
            d = self.env.get(dsid) if dsid not in self.ds else None
            if d is None or d.get("entry") is None or d.get("derived") is not None:
                return super().dataset(dsid)
            from labrea import dataset, abstractdataset
            from labrea.cache import MemoryCache, NoCache
            entry, flavour = d["entry"], d.get("flavour", "function")
            kwargs = d.get("kwargs", [])
            kw = {}                                   # as in core.Builder.dataset
            if d.get("dispatch") is not None:
                kw["dispatch"] = self.build(d["dispatch"])
            if d.get("options"):
                kw["options"] = core.py_json(d["options"])
            if d.get("default_options"):
                kw["default_options"] = core.py_json(d["default_options"])
            if d.get("callback") is not None:
                kw["callback"] = self.build(d["callback"])
            if d.get("effects"):
                kw["effects"] = [self.build(e) for e in d["effects"]]
            if d.get("abstract"):
                def f():
                    pass
                kw["abstract"] = True
            else:
                f = self.w.kwfn(d["fid"], len(kwargs))
                kw["defaults"] = {f"a{i}": self.build(e) for i, e in enumerate(kwargs)}
            f.__name__ = f.__qualname__ = f"ds{dsid}"
            mem = d.get("cache", "mem") == "mem"
            assert mem == (entry not in NOCACHE_ENTRIES), (entry, d.get("cache"))
            self.current = dsid
            try:
                if entry == "instance":
                    obj = dataset(f, cache=self.w.cache(dsid), **kw)
                elif entry == "callable":
                    obj = dataset(f, cache=self.callable_cache(flavour), **kw)
                elif entry in ("factory", "factory_kw", "factory_where", "factory_derived", "factory_class"):
                    self.current = None
                    memo = self.factory((entry == "factory_class", flavour),
                                        MemoryCache if entry == "factory_class" else self.callable_cache(flavour))
                    if entry == "factory_derived":      # a factory derived from the configured one, itself kept and reused
                        if ("derived", flavour) not in self.factories:
                            self.factories[("derived", flavour)] = memo().where()
                        memo = self.factories[("derived", flavour)]
                    self.current = dsid
                    if entry == "factory_kw":
                        obj = memo(**kw)(f)
                    elif entry == "factory_where" and kw.get("defaults"):
                        obj = memo.where(**kw.pop("defaults"))(f, **kw)
                    else:
                        obj = memo(f, **kw)
                elif entry == "set_cache_instance":
                    obj = dataset(f, **kw)
                    obj.set_cache(self.w.cache(dsid))
                elif entry == "set_cache_callable":
                    obj = dataset(f, **kw)
                    obj.set_cache(self.callable_cache(flavour))
                elif entry == "nocache_then_set":
                    obj = dataset.nocache(f, **kw)
                    obj.set_cache(self.callable_cache(flavour) if flavour != "method" else self.w.cache(dsid))
                elif entry == "bare":
                    obj = dataset(f, **kw)
                elif entry == "class":
                    obj = dataset(f, cache=MemoryCache, **kw)
                elif entry == "set_cache_class":
                    obj = dataset(f, cache=NoCache(), **kw)
                    obj.set_cache(MemoryCache)
                elif entry == "nocache_instance":
                    obj = dataset(f, cache=NoCache(), **kw)
                elif entry == "nocache_prop":
                    obj = dataset.nocache(f, **kw)
                elif entry == "nocache_factory":
                    self.current = None
                    if "nocache" not in self.factories:
                        self.factories["nocache"] = dataset.nocache
                    self.current = dsid
                    obj = self.factories["nocache"](f, **kw)
                elif entry == "nocache_class":
                    obj = dataset(f, cache=NoCache, **kw)
                elif entry == "nocache_set":
                    obj = dataset(f, **kw)
                    obj.set_cache(NoCache if flavour in ("class", "function") else NoCache())
                else:
                    raise TypeError(entry)
            finally:
                self.current = None
            self.ds[dsid] = obj
            for alias, impl in d.get("overloads", []):
                obj.register(core.py_value(alias), self.build(impl))
            if d.get("effects_disabled"):
                obj.disable_effects()
            return obj

        def build(self, e):
            if e[0] == "cached" and e[1] is not None and isinstance(self.env.get("cached_entry"), dict):
                how = self.env["cached_entry"].get(e[1])
                if how == "decorator":
                    return self.L.cached(self.w.cache(e[1]))(self.build(e[2]))
                if how == "default":
                    return self.L.cached(self.build(e[2]))
                if how == "bare_decorator":
                    from labrea.cache import cached
                    return cached(self.build(e[2]))
            return super().build(e)
    return EntryBuilder


class entry_points:
    """while active, core.run_impl (and everything built on it: fresh copies, the oracle) creates datasets and cached nodes
    through the entry point their description names"""

    def __enter__(self):
        self.orig = core.Builder
        core.Builder = entry_builder_class(self.orig)

    def __exit__(self, *a):
        core.Builder = self.orig


def assign_entries(rng, scn, recorded, uniform=None):
    """name an entry point for every dataset and cached node of a scenario (in place)"""
    pool = RECORDED_ENTRIES if recorded else UNRECORDED_ENTRIES + RECORDED_ENTRIES[:2]
    flav = rng.choice(FLAVOURS)
    for i, d in scn["env"].items():
        if not isinstance(i, int) or d.get("derived") is not None:
            continue
        if d.get("cache", "mem") != "mem":
            d["entry"] = rng.choice(NOCACHE_ENTRIES)
        else:
            d["entry"] = uniform if uniform is not None and rng.random() < 0.8 else rng.choice(pool)
        d["flavour"] = flav if rng.random() < 0.8 else rng.choice(FLAVOURS)
    cids = sorted({t[1] for t in list(cp.sub_exprs(scn["exprs"])) + list(cp.sub_exprs([v for k, v in scn["env"].items() if isinstance(k, int)]))
                   if t and t[0] == "cached" and t[1] is not None})
    if cids:
        scn["env"]["cached_entry"] = {c: rng.choice(["arg", "decorator"] if recorded else ["default", "default", "bare_decorator", "arg"]) for c in cids}
    if not recorded:
        scn["unrecorded"] = True
    return scn


def entry_siblings(rng, recorded):
    """2-4 datasets (and, sometimes, 2 cached nodes) that read THE SAME options - so their fingerprints coincide - with
    different bodies, created through one entry point (mostly one reused configured factory), sometimes below a common
    consumer; histories that ask one sibling, then another, under the same dictionary"""
    from gen import K, FLAT, SEC, SX
    from core import lit
    g = gen.Gen(rng, with_failing=False)
    X, Y, Z = FLAT
    reads = rng.choice([
        [("option", K(X), None, None)],
        [("option", K(X), None, None), ("option", K(Y), ("value", ("j", 0)), None)],
        [("option", K(SEC, SX), None, None)],
        [("option", K(X), ("option", K(Y), ("value", ("j", 1)), None), None)],
        [("switch", ("option", K(X), None, None), [(("j", 1), ("option", K(Y), ("value", ("j", 0)), None))], ("value", ("j", lit("d"))))],
        [],
    ])
    k = rng.randint(2, 4)
    env = {}
    for i in range(1, k + 1):
        kwargs = list(reads) if rng.random() < 0.85 else [("option", K(rng.choice([X, Y])), ("value", ("j", 0)), None)]
        if rng.random() < 0.3:
            kwargs = list(reversed(kwargs))
        d = dict(fid=g.newf(("const", ("j", rng.choice([None, 0, lit("c%d" % i)]))) if rng.random() < 0.15 else ("tag",)), kwargs=kwargs)
        r = rng.random()
        if r < 0.15:
            d["callback"] = ("pstep", g.newf(("tag",)), [])
        elif r < 0.3:
            d["effects"] = [("pstep", g.newf(("tag",)), [])]
        elif r < 0.4:
            d["dispatch"] = ("option", K(Z), ("value", ("j", 0)), None)
            d["overloads"] = [(("j", 1), ("call", g.newf(("tag",)), list(reads)))]
        elif r < 0.5:
            d["options"] = {Z: 1}
        elif r < 0.55:
            d["abstract"] = True
            d["dispatch"] = ("option", K(Z), ("value", ("j", 0)), None)
            d["overloads"] = [(("j", 0), ("call", g.newf(("tag",)), list(reads)))]
        if rng.random() < 0.1:
            d["cache"] = "none"
        env[i] = d
    roots = [("dataset", i) for i in range(1, k + 1)]
    if rng.random() < 0.5:
        env[k + 1] = dict(fid=g.newf(("tag",)), kwargs=[("dataset", i) for i in rng.sample(range(1, k + 1), rng.randint(2, k))])
        roots.append(("dataset", k + 1))
    if rng.random() < 0.4:
        for c in (70, 71):
            roots.append(("cached", c, ("call", g.newf(("tag",)), list(reads))))
    if rng.random() < 0.25:     # a derivative shares its dataset's cache by design: same body, pre-set options in the fingerprint's dictionary
        env[k + 2] = dict(derived=rng.randint(1, k), how=rng.choice(["with_options", "with_default_options"]), preset={Y: 5})
        roots.append(("dataset", k + 2))
    base = {X: 1, Y: 2, SEC: {SX: 1}}
    pool = [base, {**base, X: 2}, {X: 1}, {**base, Y: 0}, {**base, SEC: {SX: 2}}, {**base, Z: 1}, {}]
    ops = []
    while len(ops) < 12:
        o = rng.choice(pool)
        for i in rng.sample(range(len(roots)), min(len(roots), rng.randint(2, 3))):     # the same dictionary to several siblings in a row
            ops.append((rng.choice(("evaluate",) * 6 + ("keys", "validate")), i, False, False, dict(o)))
    scn = dict(ftable=dict(g.ftable), env=env, exprs=roots, ops=ops[:14])
    uniform = rng.choice(["factory", "factory", "factory_kw", "factory_where", "factory_derived", "callable", "set_cache_callable"] if recorded
                         else ["factory_class", "factory_class", "class", "bare", "set_cache_class"])
    return assign_entries(rng, scn, recorded, uniform)


def entry_scenarios(ctx, recorded):
    rng = ctx.rng
    n_sib, n_gen = ((70, 40) if recorded else (50, 30)) if ctx.quick else ((700, 400) if recorded else (500, 300))
    out = [entry_siblings(rng, recorded) for _ in range(n_sib)]
    for i in range(n_gen):
        g = gen.Gen(rng, preset_on_ds=0.3 if i % 2 else 0.0)
        s = g.scenario(n_exprs=2, depth=3, n_ops=12, methods=("evaluate",) * 8 + ("keys", "validate", "explain"))
        out.append(assign_entries(rng, s, recorded))
    return out


CACHE_EVENT = __import__("re").compile(r"^(ex|get|set)\d+[TF]?$")


def without_cache_events(line):
    res, ev = cp.split(line)
    return res + "|" + " ".join(t for t in ev if not CACHE_EVENT.match(t))


def unrecorded_correspondence(ctx, scns, name):
    """scenarios whose caches labrea creates itself: values / failures / body, callback, effect and log events are compared,
    the model's cache events are left out (ghost events kept for the zone tagging)"""
    impls = [[without_cache_events(l) for l in core.run_impl(s)] for s in scns]      # (some datasets of these scenarios do record)
    outs = ctx.coq_eval(name, cp.REQ, "", [core.coq_scenario(s) for s in scns], shard=30)
    models = [[without_cache_events(l) for l in o.split(" ## ")] for o in outs]
    mism, ops = [], 0
    for s, il, ml in zip(scns, impls, models):
        ops += len(il)
        multi = cp._multi_ref(s["exprs"]) or cp._multi_ref(s["env"]) or cp._multi_ref([op[4] for op in s["ops"]])
        for oi, (a, b) in enumerate(zip(il, ml)):
            if not cp.same(a, b, multi):
                mism.append(dict(where="Model/Eval.v vs labrea (caches created by labrea: cache events not compared)", op_index=oi,
                                 op=repr(s["ops"][oi]), impl=a, model=cp.strip_ghost(b), scenario_repr=cp.dump_scn(s)))
                break
            if "unmod" in cp.split(cp.strip_ghost(b))[0]:
                break
    return impls, models, mism, ops


def generate(ctx, n):
    scns = []
    for i in range(n):
        g = gen.Gen(ctx.rng, with_alloptions=(i % 10 == 0), preset_on_ds=0.3 if i % 2 else 0.0)
        scns.append(g.scenario(n_exprs=2, depth=3, n_ops=12,
                               methods=("evaluate",) * 8 + ("keys", "validate", "explain"),
                               switches=(i % 7 == 0)))
    return scns


def directed(ctx, n):
    """directed histories (added after seeded changes that only the correspondence noticed): cached
    expressions whose keys() must take EVERY element / EVERY member attempt into account, evaluated
    under dictionaries that differ only in a key read late:
    - a cached (or dataset-held) Map whose mapped expression branches on the mapped key, so that
      different elements read different options (generator shared with C03);
    - a cached coalesce whose earlier member has all its keys PRESENT but still fails (value outside
      its domain, a bind that raises, a switch without a matching case), so that the later member
      decides the outcome."""
    import props.c03 as c03
    from gen import K, FLAT
    from core import lit
    rng = ctx.rng
    out = []
    for i in range(n):
        if i % 2 == 0:
            g = c03.BranchMapGen(rng)
            s = g.scenario_branchmap(n_ops=10)
            root = s["exprs"][0]
            if root[0] == "map":
                root = ("tolist", root)
            if root[0] not in ("dataset", "cached"):
                root = ("cached", 900, root)
            ops = [(("evaluate" if rng.random() < 0.75 else m), j, cc, lc, o) for (m, j, cc, lc, o) in s["ops"]]
            out.append(dict(s, exprs=[root], ops=ops))
            continue
        g = gen.Gen(rng)
        a, b, c = K(FLAT[0]), K(FLAT[1]), K(FLAT[2])
        good, bad = rng.choice([1, 2, lit("a")]), rng.choice([7, lit("z"), None])
        kind = rng.choice(["domain", "bind", "switch", "domain"])
        if kind == "domain":
            first = ("option", a, None, ("value", ("j", [good, 5])))
        elif kind == "bind":
            first = ("bind", ("option", a, None, None), [(("j", good), ("value", ("j", lit("hit"))))], None)
        else:
            first = ("switch", ("option", a, None, None), [(("j", good), ("value", ("j", lit("hit"))))], None)
        later = rng.choice([("option", b, None, None),
                            ("call", g.newf(("tag",)), [("option", b, None, None)]),
                            ("switch", ("option", b, None, None), [(("j", 1), ("option", c, None, None))],
                             ("value", ("j", lit("dflt"))))])
        members = [first, later] + ([("value", ("j", lit("last")))] if rng.random() < 0.5 else [])
        co = ("coalesce", members)
        w = rng.random()
        if w < 0.5:
            root = ("cached", 901, co)
        elif w < 0.8:
            g.env[1] = dict(fid=g.newf(("tag",)), kwargs=[co])
            root = ("dataset", 1)
        else:
            root = ("cached", 901, ("call", g.newf(("tag",)), [co]))
        base = {FLAT[0]: bad, FLAT[1]: 1, FLAT[2]: 3}
        pool = [base, {**base, FLAT[1]: 2}, {**base, FLAT[2]: 4}, {**base, FLAT[0]: good},
                {FLAT[1]: 1, FLAT[2]: 3}, {**base, FLAT[1]: 2, FLAT[2]: 4}, {FLAT[0]: bad}]
        ops = [("evaluate", 0, False, False, base), ("evaluate", 0, False, False, pool[1])]
        for _ in range(8):
            ops.append((rng.choice(("evaluate", "evaluate", "evaluate", "keys", "validate")), 0, False, False, rng.choice(pool)))
        out.append(dict(ftable=dict(g.ftable), env=dict(g.env), exprs=[root], ops=ops))
    return out


# ----------------------------------------------------------------------------- histories that go on after a failure
# "regardless of what was evaluated earlier" includes evaluations that FAILED - in every way an operation can fail - on the
# same graph or on an unrelated graph of the same process.  after_failure: 2-3 independent cached graphs that reach one
# target option (TT.TU) through different reference sites; failing operations (the target's section is None / a scalar / a
# list / empty / absent, the referring option is absent or refers to a missing key, the value is outside a domain, matches no
# case, makes the body / a bind function raise; asked through evaluate, validate, keys, explain) are followed by
# evaluations of EVERY graph under dictionaries that differ only in the target.  The option names are the history's own.

TARGET_VALS = [gen.lit("a"), gen.lit("b"), 1, 2, gen.lit("c")]


def after_failure_scenario(rng, base=70):
    """base: the first of the six option names (atoms) of this history.  Every history of one run gets names of its own, so that
    whatever a failing operation leaves behind under a NAME can only come from the history itself (a replay reproduces it)"""
    from gen import K
    from core import lit, S
    g = gen.Gen(rng)
    TT, TU, TW, TP, TQ, TD = range(base, base + 6)
    target = K(TT, TU)
    templ = S(("lit", "r"), ("ref", target)) if rng.random() < 0.5 else S(("ref", target))

    def site():
        kind = rng.choice(["value_templ", "value_templ", "default_templ", "default_templ", "template", "template_par", "direct", "direct_domain",
                           "switch", "bind", "first"])
        if kind == "value_templ":       # the option's VALUE in the dictionary is a templated string
            return ("option", K(TP), None, None), kind
        if kind == "default_templ":     # ... its default is
            return ("option", K(TD), ("template", (("ref", target), ("lit", "/")), []), None), kind
        if kind == "template":
            return ("template", (("lit", "s"), ("ref", target)), []), kind
        if kind == "template_par":
            return ("template", (("ref", target), ("par", 1)), [(1, ("value", ("j", lit("o"))))]), kind
        if kind == "direct":
            return ("option", target, None, None), kind
        if kind == "direct_domain":
            return ("option", target, None, ("value", ("j", [lit("a"), lit("b"), 1, 2]))), kind
        if kind == "switch":
            return ("switch", ("option", target, None, None), [(("j", lit("a")), ("value", ("j", 1))), (("j", lit("b")), ("option", K(TQ), ("value", ("j", 0)), None)),
                                                              (("j", 1), ("value", ("j", lit("one"))))], None), kind
        if kind == "bind":
            return ("bind", ("option", target, None, None), [(("j", lit("a")), ("value", ("j", 1))), (("j", 2), ("option", K(TQ), ("value", ("j", 0)), None)),
                                                            (("j", lit("b")), ("value", ("j", lit("bee"))))], None), kind
        return ("call", g.newf(("first",)), [("option", K(TP), None, None)]), kind

    def graph(dsid):
        e, kind = site()
        w = rng.random()
        body = g.newf(("tag",)) if rng.random() < 0.75 else g.newf(("tag_raise_on", ("j", rng.choice([lit("c"), lit("rc"), 2])), rng.randint(1, 7)))
        if kind in ("direct", "direct_domain") and rng.random() < 0.4:
            body = g.newf(("tag_raise_on", ("j", rng.choice([lit("c"), 2])), rng.randint(1, 7)))
        if w < 0.45:
            g.env[dsid] = dict(fid=body, kwargs=[e] + ([("option", K(TQ), ("value", ("j", 0)), None)] if rng.random() < 0.4 else []))
            return ("dataset", dsid), kind
        if w < 0.60:
            return ("cached", 80 + dsid, ("call", body, [e])), kind
        if w < 0.72:                    # the reference sits in the callback
            g.env[dsid] = dict(fid=body, kwargs=[("option", K(TQ), ("value", ("j", 0)), None)], callback=("pstep", g.newf(("tag",)), [e]))
            return ("dataset", dsid), kind
        if w < 0.84 and kind in ("value_templ", "direct", "first"):       # ... in the dispatch
            g.env[dsid] = dict(fid=body, kwargs=[], dispatch=e, overloads=[(("j", lit("a")), ("value", ("j", lit("A")))),
                                                                            (("j", lit("ra")), ("option", K(TQ), ("value", ("j", 0)), None))])
            return ("dataset", dsid), kind
        g.env[dsid] = dict(fid=body, kwargs=[e])                          # ... below a consumer
        g.env[dsid + 10] = dict(fid=g.newf(("tag",)), kwargs=[("dataset", dsid), ("option", K(TQ), ("value", ("j", 0)), None)])
        return ("dataset", dsid + 10), kind
    roots, kinds = [], []
    for i in range(rng.randint(2, 3)):
        e, kind = graph(i + 1)
        roots.append(e)
        kinds.append(kind)

    def good(v, extra=None):
        o = {TP: templ, TT: {TU: v}, TQ: 1}
        if extra:
            o.update(extra)
        return o

    def failing():
        r = rng.random()
        base = good(rng.choice(TARGET_VALS))
        if r < 0.22:
            base[TT] = None                                      # an empty section (what `TT:` with nothing under it loads as)
        elif r < 0.36:
            base[TT] = rng.choice([5, lit("x"), True, 0])        # a scalar where a section is expected
        elif r < 0.44:
            base[TT] = [1, 2]
        elif r < 0.54:
            base[TT] = {}
        elif r < 0.64:
            del base[TT]
        elif r < 0.72:
            del base[TP]
        elif r < 0.80:
            base[TP] = S(("ref", K(TW)))                        # refers to a key that is missing
        elif r < 0.86:
            base[TT] = {TU: None}
        else:
            base[TT] = {TU: rng.choice([lit("zz"), 9, lit("c"), 2])}     # outside the domain / no matching case / the body raises
        return base
    ops = []
    meths = ("evaluate", "evaluate", "evaluate", "evaluate", "validate", "keys", "explain")
    if rng.random() < 0.5:
        ops.append(("evaluate", rng.randrange(len(roots)), False, False, good(rng.choice(TARGET_VALS[:2]))))
    for _ in range(rng.randint(1, 3)):
        ops.append((rng.choice(meths), rng.randrange(len(roots)), False, False, failing()))
    vals = rng.sample(TARGET_VALS, 3)
    for i in rng.sample(range(len(roots)), len(roots)):
        for v in (vals[0], vals[1], vals[0]):
            ops.append(("evaluate", i, False, False, good(v)))
    ops.append((rng.choice(meths), rng.randrange(len(roots)), False, False, failing()))
    for i in rng.sample(range(len(roots)), min(2, len(roots))):
        ops.append(("evaluate", i, False, False, good(vals[2], {TQ: 1} if rng.random() < 0.7 else {TQ: 2})))
        ops.append(("evaluate", i, False, False, good(vals[1])))
    return dict(ftable=dict(g.ftable), env=dict(g.env), exprs=roots, ops=ops, after_failure=kinds)


# ----------------------------------------------------------------------------- several deficiencies at once
# deficient: graphs of the fragment in which labrea visits the parts of a graph in ONE order in keys(), validate() and evaluate()
# (datasets with arguments / dispatch / overloads / a callback, function applications, pipelines of several steps - as callback,
# applied to an argument, or handed to the body -, plain options, switches, collections, cached nodes, pre-set options), every
# part reading an option of its own; dictionaries deficient for TWO OR MORE parts at once (keys missing, values matching no
# case).  There "fails exactly as with caching off" is demanded literally (strict_failures): the same cause.

DF = list(range(80, 90))


def deficient_scenario(rng):
    from gen import K
    from core import lit
    g = gen.Gen(rng)
    free = list(DF)
    rng.shuffle(free)
    used, switched = [], []

    def opt():
        # (ten fresh names per scenario; a graph that asks for more re-reads one it already uses)
        k = free.pop() if free else rng.choice(used)
        if k not in used:
            used.append(k)
        return ("option", K(k), None, None)

    def part():
        """a part with one deficiency site (sometimes two)"""
        r = rng.random()
        if r < 0.6 or len(free) < 3:
            return opt()
        if r < 0.8:
            k = free.pop()
            used.append(k)
            switched.append(k)
            return ("switch", ("option", K(k), None, None), [(("j", 1), ("value", ("j", lit("one")))), (("j", 2), opt())], None)
        return ("call", g.newf(("tag",)), [opt(), opt()])

    def step():
        return ("pstep", g.newf(("tag",)), [part() for _ in range(1 if rng.random() < 0.8 or len(free) < 3 else 2)])

    def pipe(n):
        return ("pipe", [step() for _ in range(n)])
    shape = rng.choice(["callback", "callback", "callback1", "applied", "applied", "handed", "args", "nested", "dispatch", "cached_call", "collection",
                        "preset"])
    env = g.env
    if shape == "callback":
        env[1] = dict(fid=g.newf(("tag",)), kwargs=[part()] if rng.random() < 0.7 else [], callback=pipe(rng.randint(2, 3)))
        root = ("dataset", 1)
    elif shape == "callback1":
        env[1] = dict(fid=g.newf(("tag",)), kwargs=[part()], callback=("pstep", g.newf(("tag",)), [part(), part()]))
        root = ("dataset", 1)
    elif shape == "applied":
        env[1] = dict(fid=g.newf(("tag",)), kwargs=[("apply", part(), pipe(rng.randint(2, 3)))] + ([part()] if rng.random() < 0.4 else []))
        root = ("dataset", 1)
    elif shape == "handed":         # the pipeline is an ordinary argument of the dataset
        env[1] = dict(fid=g.newf(("tag",)), kwargs=[part(), pipe(rng.randint(2, 3))])
        root = ("dataset", 1)
    elif shape == "args":
        env[1] = dict(fid=g.newf(("tag",)), kwargs=[part() for _ in range(rng.randint(2, 3))])
        root = ("dataset", 1)
    elif shape == "nested":
        env[1] = dict(fid=g.newf(("tag",)), kwargs=[part()], **({"callback": pipe(2)} if rng.random() < 0.5 else {}))
        env[2] = dict(fid=g.newf(("tag",)), kwargs=rng.sample([("dataset", 1), part()], 2))
        root = ("dataset", 2)
    elif shape == "dispatch":
        env[1] = dict(fid=g.newf(("tag",)), kwargs=[part()], dispatch=opt(), overloads=[(("j", 1), ("call", g.newf(("tag",)), [part(), part()]))])
        root = ("dataset", 1)
    elif shape == "cached_call":
        root = ("cached", 95, ("call", g.newf(("tag",)), [part(), ("apply", part(), pipe(2))]))
    elif shape == "collection":
        env[1] = dict(fid=g.newf(("tag",)), kwargs=[(rng.choice(["list", "tuple"]), [part(), part()]), part()])
        root = ("dataset", 1)
    else:
        env[1] = dict(fid=g.newf(("tag",)), kwargs=[part(), part()], callback=pipe(2))
        root = ("with", rng.random() < 0.5, {used[0]: 1}, ("dataset", 1))
    roots = [root]
    if 1 in env and root != ("dataset", 1) and rng.random() < 0.5:
        roots.append(("dataset", 1))
    full = {k: (1 if k in switched or rng.random() < 0.5 else rng.choice([2, lit("v")])) for k in used}

    def lacking(n):
        o = dict(full)
        for k in rng.sample(used, min(n, len(used))):
            if k in switched and rng.random() < 0.5:
                o[k] = 7            # a value matching no case
            else:
                del o[k]
        if rng.random() < 0.3:
            o = dict(reversed(list(o.items())))
        return o
    ops = []
    meths = ("evaluate",) * 6 + ("validate", "validate", "keys", "explain")
    for t in range(12):
        r = rng.random()
        o = dict(full) if r < 0.2 else lacking(1) if r < 0.35 else lacking(2) if r < 0.75 else lacking(3)
        if r < 0.2 and rng.random() < 0.5:
            o[rng.choice(used)] = rng.choice([1, 2])
        ops.append((rng.choice(meths), rng.randrange(len(roots)), False, False, o))
    return dict(ftable=dict(g.ftable), env=dict(env), exprs=roots, ops=ops, strict=shape)


def order_faithful(scn):
    """the fragment strict_failures speaks about, checked on the description (the family is generated inside it)"""
    allowed = {"value", "fnvalue", "option", "switch", "call", "pstep", "pipe", "apply", "list", "tuple", "cached", "with", "dataset"}
    others = {"template", "coalesce", "case", "bind", "map", "iter", "dict", "comp", "logged", "alloptions", "tolist"}      # (the rest of core.Builder.build)
    for t in list(cp.sub_exprs(scn["exprs"])) + list(cp.sub_exprs([v for k, v in scn["env"].items() if isinstance(k, int)])):
        if t and isinstance(t[0], str) and t[0] in others and t[0] not in allowed:
            return False
        if t and t[0] == "option" and len(t) == 4 and t[3] is not None:
            return False
    if any(d.get("effects") for k, d in scn["env"].items() if isinstance(k, int)):
        return False
    return not any(cp._multi_ref(op[4]) or any(isinstance(v, core.S) and any(x[0] == "ref" for x in v.toks) for v in op[4].values()) for op in scn["ops"])


def r4_scenarios(ctx):
    import random
    rng = random.Random(f"{ctx.seed}-C01-after-failure-deficient")     # a stream of its own (VERIF_SEED decides it): the older streams stay what they were
    n = 70 if ctx.quick else 700
    return [after_failure_scenario(rng, 1000 + 10 * i) for i in range(n)], [deficient_scenario(rng) for _ in range(n)]


def run(ctx):
    with entry_points():
        return run_(ctx)


def run_(ctx):
    n = 2000 if ctx.quick else 12000
    corpus = corpus_for(PID)
    scns = [s for _, s in corpus] + generate(ctx, n) + directed(ctx, 160 if ctx.quick else 1600)
    by_entry = entry_scenarios(ctx, recorded=True)      # (generated after the older streams: those stay what they were for every seed)
    after_fail, deficient = r4_scenarios(ctx)
    scns = scns + by_entry + after_fail + deficient
    unrec = entry_scenarios(ctx, recorded=False)        # (the correspondence run draws no random numbers: the stream is what it was)
    # the theorem's hypotheses are evaluated by the model on the descriptions alone: that Coq run goes on in the background while the
    # implementation is exercised (scheduling only - what is computed and compared is unchanged)
    import threading
    flags_box = {}

    def compute_flags(all_scns=scns + unrec):
        try:
            flags_box["flags"] = covered_flags(ctx, all_scns, "Covered_C01")
        except BaseException as e:      # re-raised in the main thread
            flags_box["error"] = e
    flags_thread = threading.Thread(target=compute_flags, daemon=True)
    flags_thread.start()
    impls, models, mism, stats = cp.correspondence(ctx, scns, "Cases_C01")
    u_impls, u_models, u_mism, u_ops = unrecorded_correspondence(ctx, unrec, "Unrecorded_C01")
    scns, impls, models, mism = scns + unrec, impls + u_impls, models + u_models, mism + u_mism
    stats["ops"] += u_ops
    violations, late_violations, distinct, oracle_checks, tagged = [], [], set(), 0, {}
    strict_checks = 0
    for scn, il in zip(scns, impls):
        if scn.get("strict") and order_faithful(scn):
            strict_checks += len(il)
            for (j, got, want) in strict_failures(scn, il)[:1]:
                late_violations.append(dict(desc="an operation on the long-lived (cached) graph fails with another cause than the same operation on a fresh cache-free "
                                                 "copy, in a graph whose parts labrea visits in one order in keys(), validate() and evaluate() (several deficiencies at once)",
                                            op_index=j, cached=got, uncached=want, finding=None, strict=True, scenario_repr=cp.dump_scn(scn)))
    for scn, il, ml in zip(scns, impls, models):
        fails = transparency_failures(scn, il)
        oracle_checks += sum(1 for op in scn["ops"] if op[0] == "evaluate")
        for (j, got, want) in fails[:1]:
            upto = range(min(j + 1, len(ml)))
            dirty = any(cp.is_dirty(ml[t]) for t in upto)
            lazy = any(tok.startswith("dirtylazy") for t in upto for tok in cp.split(ml[t])[1])
            finding = None
            if dirty and cp.agrees(il, ml, scn, upto=j):
                finding = "D21" if lazy else cp.zone_of(scn)
            elif cp.agrees(il, ml, scn, upto=j) and in_zone_d24(scn, j):
                finding = "D24"
            elif cp.agrees(il, ml, scn, upto=j) and cp.in_zone_d26(scn, [op[4] for op in scn["ops"][:j + 1]]):
                finding = "D26"
            if finding:
                tagged[finding] = tagged.get(finding, 0) + 1
            late_violations.append(dict(desc="an evaluation on the long-lived (cached) graph differs from the cache-free evaluation of a fresh copy",
                                        op_index=j, cached=got, uncached=want, finding=finding, scenario_repr=cp.dump_scn(scn)))
        hits = sum(1 for l in il if any(t.startswith("get") and t.endswith("T") for t in cp.split(l)[1]))
        if hits:
            distinct.add(lib.stable_hash(cp.dump_scn(scn)))
    # the theorem's hypotheses, evaluated by the model on what was generated; inside them the
    # theorem's conclusion is applied to the implementation as a STRICT oracle (same value, or the
    # same failure cause and EvaluationError-ness as a fresh cache-free copy)
    flags_thread.join()
    if "error" in flags_box:
        raise flags_box["error"]
    flags = flags_box["flags"]
    cov = dict(ops=0, covered_ops=0, covered_histories=0, strict_checks=0, covered_with_hit=0)
    for scn, il, fl in zip(scns, impls, flags):
        cov["ops"] += len(fl)
        cov["covered_ops"] += fl.count("1")
        if fl and set(fl) == {"1"}:
            cov["covered_histories"] += 1
            for j, (op, line) in enumerate(zip(scn["ops"], il)):
                fresh = cp.fresh_eval(scn, op[1], op[4], method=op[0])
                cov["strict_checks"] += 1
                if any(t.startswith("get") and t.endswith("T") for t in cp.split(line)[1]):
                    cov["covered_with_hit"] += 1
                a, b = cp.split(line)[0], cp.split(fresh)[0]
                if a != b and a.startswith("err:key(") and b.startswith("err:key(") and (
                        cp._multi_ref(scn["exprs"]) or cp._multi_ref(scn["env"]) or cp._multi_ref([x[4] for x in scn["ops"]])):
                    # several references of one template are missing: WHICH one is named depends on the order in which Python
                    # walks them (the fingerprint computation names one, the cache-free evaluation another) - the tolerance
                    # the correspondence applies to the same situation (coreprop.same)
                    a, b = cp.KEYRE.sub("key(*)", a), cp.KEYRE.sub("key(*)", b)
                if a != b:
                    violations.append(dict(desc="inside the hypotheses of C01_history_transparent (computed by the model) an operation on the "
                                                "long-lived graph differs from the cache-free operation on a fresh copy",
                                           op_index=j, cached=cp.split(line)[0], uncached=cp.split(fresh)[0], finding=None,
                                           scenario_repr=cp.dump_scn(scn)))
                    break
    violations = violations + late_violations       # (the order the violations were listed in before)
    known = []
    for fid in KNOWN:
        w = WITNESSES[fid]
        f = transparency_failures(w["scn"])
        known.append(dict(id=fid, still_fails=any(j == w["fails_at"] for j, _, _ in f), what=w["what"]))
    return {
        "evaluations": stats["ops"] + oracle_checks,
        "distinct_nontrivial": len(distinct),
        "rule": "random expression graphs (datasets with overloads/pre-set/default options/callbacks, options with defaults and templated values, "
                "apply, bind, switch, case, coalesce, collections, Map, Template, WithOptions, cached) x histories of 12 operations over a pool of "
                "adversarially perturbed dictionaries on one long-lived graph; plus datasets / cached nodes created through labrea's other public "
                "cache entry points (cache=<callable>, a reused configured factory, set_cache, dataset.nocache, cache=NoCache, cached(<cache>)(x); "
                "and, with caches labrea creates itself: @dataset, cache=MemoryCache, a reused dataset(cache=MemoryCache), set_cache(MemoryCache), "
                "cached(x)), in particular siblings reading the same options; histories that go on after operations that fail in every way (empty / scalar / "
                "missing section under a templated reference, missing keys, domain, no matching case, raising bodies) on the same or an unrelated graph, "
                "then dictionaries differing only in the failed reference's target; graphs with several deficiencies at once (pipelines of several steps "
                "as callback / applied / handed over, arguments, dispatch, nested datasets), where the failure's cause must equal the cache-free one; "
                "non-trivial = the history contains at least one cache hit; distinct by "
                "hash of the scenario",
        "samples": [dict(exprs=repr(s["exprs"])[:400], first_ops=[repr(o)[:160] for o in s["ops"][:3]], observed=il[:3]) for s, il in list(zip(scns, impls))[:3]],
        "traces_validated_against_impl": stats["ops"],
        "correspondence_mismatches": mism[:5],
        "violations": violations,
        "known": known,
        "distribution": dict(stats, oracle_checks=oracle_checks, oracle_failures_tagged=tagged, scenarios=len(scns),
                             theorem_hypotheses=cov, histories_going_on_after_failures=len(after_fail), after_failure_sites=site_histogram(after_fail),
                             several_deficiencies_at_once=dict(histories=len(deficient), strict_cause_checks=strict_checks,
                                                               shapes={k: sum(1 for x in deficient if x["strict"] == k) for k in sorted({x["strict"] for x in deficient})}),
                             entry_point_scenarios=dict(recording_caches=len(by_entry), caches_created_by_labrea=len(unrec)),
                             entry_points=entry_histogram(by_entry + unrec)),
        "exhaustive": False,
        "assumptions": ["user code is deterministic; cyclic template references excluded; floats not generated",
                        "failure comparison is by failing/succeeding (which of several causes surfaces first legitimately differs when the fingerprint is computed first: "
                        "a domain violation or a raising body ahead of a missing key), EXCEPT in the order-faithful fragment (order_faithful: no templates, coalesce, "
                        "case, bind, Map, domains, effects) where every deficiency is visible to keys() and the cause must be the cache-free one"],
        "trusted_base": ["confectioner functions and CPython json/str/dict are modelled (Model/Base.v, Model/Template.v), validated by this correspondence run"],
    }


def site_histogram(scns):
    h = {}
    for s in scns:
        for k in s.get("after_failure", []):
            h[k] = h.get(k, 0) + 1
    return h


def entry_histogram(scns):
    h = {}
    for s in scns:
        for k, d in s["env"].items():
            for e in ([d["entry"]] if isinstance(k, int) and d.get("entry") else list(d.values()) if k == "cached_entry" else []):
                h[e] = h.get(e, 0) + 1
    return h


def replay(ctx, payload):
    with entry_points():
        return replay_(ctx, payload)


def replay_(ctx, payload):
    scn = cp.load_scn(payload["scenario_repr"])
    il = core.run_impl(scn)
    f = transparency_failures(scn)
    if scn.get("strict") and order_faithful(scn):
        f = f + strict_failures(scn, il)
    ml = ctx.coq_eval("Replay_C01", cp.REQ, "", [core.coq_scenario(scn)])[0].split(" ## ")
    if scn.get("unrecorded"):       # caches created by labrea itself: no cache events on the implementation's side
        il, ml = [without_cache_events(l) for l in il], [without_cache_events(l) for l in ml]
    return bool(f) or not cp.agrees(il, ml, scn), dict(oracle_failures=f, impl=il, model=[cp.strip_ghost(x) for x in ml])
