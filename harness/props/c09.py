"""C09 - Templates substitute options and parameters transitively and report their reads.

Three measurements on every generated case (expression, options dictionary):

1. correspondence  - Model/Eval.v (vm_compute) against labrea on evaluate / keys / explain /
   validate histories, plus the model's logged option reads against the reads of the
   independent substitution below (ties `resolve_reads`, the notion the theorems of
   Properties/C09.v speak about, to something written independently of the code);
2. the property's own oracle on the implementation - `Spec`: an independent, compositional
   implementation of template substitution (every reference replaced by the FULL expansion of
   the string form of its value; parameters inserted as their string form; escapes removed
   once, at the end; the first absent reference named) compared with Template / Option
   evaluation; `keys()` and `explain()` must contain every key that substitution looked up;
3. perturbation - a key outside keys() is changed or deleted: the outcome must not move;
   a key the substitution read is deleted: a missing-key error naming an absent key must follow.

Known findings in this property's zone: D1 (templated strings inside container values) and
D13 (a parameter's string form is re-scanned); a failure is tagged only when the independent
substitution attributes it to that zone AND the model agrees with the implementation.
"""
import copy
import json
import os
import random
import subprocess
import sys
import tempfile
import threading
import warnings

import coreprop as cp
import core
import lib
from core import S, lit
from gen import K
from witnesses import corpus_for

PID = "C09"
COQ_TARGETS = cp.COQ_TARGETS

# ----------------------------------------------------------------------------- key universe
SEC, SX, SY = 20, 21, 22
DEEP = (23, 24, 25)
LST = 30
PKEYS = [K(15), K(16)]                     # keys read by parameter expressions
ABSENT = [K(17), K(SEC, 26)]               # never present: missing references
# a templated value stored under a key may only reference keys of HIGHER rank (acyclic chains)
REF_ORDER = [K(10), K(11), K(12), K(13), K(SEC, SX), K(SEC, SY), K(*DEEP), K(14)]
SCALARS = [None, True, False, 0, 1, 2, 5, -3, lit(""), lit("a"), lit("b"), lit("x y")]
LITCHARS = "abxy/_ -.="
FIRST = 900                                # function atom: returns its first argument

# ----------------------------------------------------------------------------- option NAMES at the edges of what the library accepts
# A template reference is whatever stands between an unescaped '{' and the next '}' (confectioner: r"(?<!\\){([^\\]*?)}"), cut at the
# dots; a part is a list index when int() accepts it, a parameter when it reads ':identifier:', and a dictionary key otherwise.  So an
# option name may hold hyphens, spaces (also leading / trailing), slashes, any punctuation but { } \ and the dot, any non-ASCII character,
# tabs and line breaks, and text that merely looks numeric ('1e3', '0x1F').  The scenario language speaks of atoms; a *name profile* maps
# the atoms of this module's key universe to such names for the implementation side (the model and the independent substitution never
# see names).  Every name holds a character that no generated literal / scalar text holds and none is part of another one, so that the
# observation text can be mapped back to atoms (core.canon_names).
NAME_PROFILES = [
    ("hyphens, spaces, slashes", {10: "data-dir", 11: "env-name", 12: "file name", 13: "région/est", 14: "MODULE-2", 15: "per-item", 16: "item (2)",
                                  17: "no-such-key", 18: "out dir", 20: "my section", 21: "sub-key", 22: "ü", 23: "top/level", 24: "mid level",
                                  25: "leaf-level", 26: "gone/", 30: "the-list"}),
    ("punctuation, case, padding", {10: "#1", 11: "+m", 12: "Mm", 13: "mM", 14: "100%", 15: " pad ", 16: "'h'", 17: '"h"', 18: "m*",
                                    20: "@sec", 21: "~", 22: "!?", 23: "(h)", 24: "<h>", 25: "h|h", 26: "$HOME", 30: "[m]", }),
    ("non-ASCII, tabs, line breaks, numeric look-alikes", {10: "數據", 11: "ключ", 12: "na\u00efve\u00a0h", 13: "tab\tm", 14: "1e3", 15: "línea\nm", 16: "0x1F",
                                                          17: "\u2603", 18: "ü:", 20: "sección", 21: ":9:", 22: "\u00a7", 23: "\U0001F600", 24: "k;", 25: "½",
                                                          26: "¿m?", 30: "liste\u200b"}),
]


class profile:
    """context manager: the implementation-side names (core.ALIASES) and the substitution's depth budget of one scenario"""

    def __init__(self, scn):
        self.names, self.maxdepth = scn.get("names"), scn.get("maxdepth")

    def __enter__(self):
        self.saved = (core.ALIASES, core.ALIASES_INV, Spec.MAXDEPTH)
        if self.names:
            core.ALIASES = dict(self.names)
            core.ALIASES_INV = {v: k for k, v in core.ALIASES.items()}
        if self.maxdepth:
            Spec.MAXDEPTH = self.maxdepth
        return self

    def __exit__(self, *exc):
        core.ALIASES, core.ALIASES_INV, Spec.MAXDEPTH = self.saved
        return False


def rank_of(key):
    return REF_ORDER.index(key)


def set_path(o, key, v):
    cur = o
    for s in key[:-1]:
        cur = cur.setdefault(s[1], {})
        if not isinstance(cur, dict):
            return
    cur[key[-1][1]] = v


def del_path(o, key):
    """a copy of o without the entry at key (dictionaries along the path copied)"""
    out = dict(o)
    cur = out
    for s in key[:-1]:
        if s[0] != "n" or not isinstance(cur.get(s[1]), dict):
            return out
        cur[s[1]] = dict(cur[s[1]])
        cur = cur[s[1]]
    if key[-1][0] == "n" and isinstance(cur, dict):
        cur.pop(key[-1][1], None)
    return out


def prune_path(o, key):
    """del_path, and the parent sections that became empty are removed too (an empty section left on the path of an absent dotted key
    is a leaf the perturbation may turn into a scalar: the scalar-parent zone of finding D6, which is C04's)"""
    out = del_path(o, key)
    for n in range(len(key) - 1, 0, -1):
        try:
            if jget(out, key[:n]) == {}:
                out = del_path(out, key[:n])
        except (KeyError, Undef):
            pass
    return out


def put_path(o, key, v):
    out = dict(o)
    cur = out
    for s in key[:-1]:
        if not isinstance(cur.get(s[1]), dict):
            return out
        cur[s[1]] = dict(cur[s[1]])
        cur = cur[s[1]]
    cur[key[-1][1]] = v
    return out


# ----------------------------------------------------------------------------- generators

def gen_toks(rng, refs, n_par=0, maxlen=6, must_ref=True, escapes=True):
    """a template string over {literal, {KEY}, {DOTTED.KEY}, {:p:}, escaped braces}"""
    toks = []
    pars = list(range(1, n_par + 1))
    for _ in range(rng.randint(1, maxlen)):
        c = rng.random()
        if c < 0.36 and refs:
            toks.append(("ref", rng.choice(refs)))
        elif c < 0.46 and pars:
            toks.append(("par", rng.choice(pars)))
        elif c < 0.58 and escapes:
            toks.append(("escl",) if rng.random() < 0.5 else ("escr",))
        else:
            toks.append(("lit", rng.choice(LITCHARS)))
    if must_ref and refs and not any(t[0] == "ref" for t in toks):
        toks.insert(rng.randint(0, len(toks)), ("ref", rng.choice(refs)))
    for p in pars:                           # every supplied parameter is mentioned
        if not any(t == ("par", p) for t in toks):
            toks.insert(rng.randint(0, len(toks)), ("par", p))
    return tuple(toks)


def gen_options(rng, depth, missing_p=0.06, escapes_p=0.08):
    """options whose values are scalars or templated strings forming acyclic reference chains of
    depth <= `depth` (scalar = 0, a templated string = 1 + the deepest value it references)"""
    vals, vdepth = {}, {}
    for key in reversed(REF_ORDER):
        r = rng.random()
        if r < 0.12:
            continue                         # absent
        higher = [k for k in REF_ORDER[rank_of(key) + 1:] if k in vals and vdepth[k] < depth]
        if r < 0.45 or not higher:
            vals[key], vdepth[key] = rng.choice(SCALARS), 0
            continue
        deepest = max(higher, key=lambda k: vdepth[k])
        refs = []
        for _ in range(rng.randint(1, 2)):
            refs.append(deepest if rng.random() < 0.6 else rng.choice(higher))
        d = 1 + max(vdepth[k] for k in refs)
        if rng.random() < missing_p:
            refs.append(rng.choice(ABSENT))
        r2 = rng.random()
        if r2 < 0.35 and len(refs) == 1:
            toks = (("ref", refs[0]),)       # the whole value is one reference
        else:
            toks = []
            for k in refs:
                if rng.random() < 0.6:
                    toks.append(("lit", rng.choice(LITCHARS)))
                toks.append(("ref", k))
            if rng.random() < 0.4:
                toks.append(("lit", rng.choice(LITCHARS)))
            if rng.random() < escapes_p:
                toks.insert(rng.randint(0, len(toks)), ("escl",) if rng.random() < 0.5 else ("escr",))
            toks = tuple(toks)
        vals[key], vdepth[key] = S(*toks), d
    o = {}
    order = list(vals)
    rng.shuffle(order)
    for key in order:
        set_path(o, key, vals[key])
    for pk in PKEYS:
        if rng.random() < 0.8:
            o[pk[0][1]] = rng.choice([1, 2, 7, lit("q"), lit("r s"), None, True])
    if rng.random() < 0.4:
        o[LST] = [rng.choice([0, 1, 2, None, True]) for _ in range(rng.randint(0, 3))]
    return o, vdepth


def gen_param(rng, defect=False, templated_universe=True):
    r = rng.random()
    if not templated_universe and r >= 0.75:
        r = rng.random() * 0.75
    if defect:
        if r < 0.4:      # a constant whose text is itself a reference
            return ("value", ("j", S(("ref", rng.choice(REF_ORDER[:4])))))
        if r < 0.7:      # a constant with escaped braces
            return ("value", ("j", S(("escl",), ("lit", "x"), ("escr",))))
        # (a parameter whose EVALUATED text holds brace characters produced by an inner unescaping,
        # e.g. Template('\\{{A}\\}') as a parameter, is outside the model's token alphabet: it is
        # replayed as a fixed implementation-only witness, see d13_json_witness)
        return ("value", ("j", S(("lit", "a"), ("ref", rng.choice(ABSENT)))))
    if r < 0.4:
        pk = rng.choice(PKEYS)
        dflt = ("value", ("j", rng.choice([3, lit("d")]))) if rng.random() < 0.4 else None
        return ("option", pk, dflt, None)
    if r < 0.6:
        return ("value", ("j", rng.choice([4, lit("v"), lit("w w"), None, False, [1, 2]])))
    if r < 0.75:
        return ("call", FIRST, [("option", rng.choice(PKEYS), None, None)])
    if r < 0.9:          # an option from the templated universe
        return ("option", rng.choice(REF_ORDER), None, None)
    return ("template", gen_toks(rng, REF_ORDER[2:], maxlen=3, escapes=False), [])


def gen_exprs(rng, defect=None, esc_values=False):
    refs = REF_ORDER + [K(LST)] * (rng.random() < 0.3) + ABSENT[:1] * (rng.random() < 0.1)
    n_par = rng.choice([0, 0, 1, 1, 2])
    if defect == "D13":
        n_par = rng.choice([1, 2])
    # a parameter never evaluates to a text with brace CHARACTERS made by an inner unescaping:
    # when option values carry escapes, parameters stay away from the templated universe
    ps = [(p, gen_param(rng, defect == "D13" and p == 1, not esc_values)) for p in range(1, n_par + 1)]
    e0 = ("template", gen_toks(rng, refs, n_par=n_par), ps)
    k1 = rng.choice(REF_ORDER[:5]) if defect != "D1" else rng.choice([K(10), K(11), K(SEC)])
    r = rng.random()
    d1 = None
    if r < 0.2:
        d1 = ("value", ("j", rng.choice(SCALARS)))
    elif r < 0.35:
        d1 = ("template", gen_toks(rng, refs, maxlen=3), [])
    e1 = ("option", k1, d1, None)
    # an option whose DEFAULT is templated; its own key is (mostly) absent
    k2 = K(17) if rng.random() < 0.8 else rng.choice(REF_ORDER[:3])
    e2 = ("option", k2, ("template", gen_toks(rng, refs, maxlen=4), []), None)
    # constant text: no placeholder at all, but escaped braces (must still come out as brace characters)
    const = tuple(t for t in gen_toks(rng, [], maxlen=5, must_ref=False) if t[0] != "par") + ((("escl",), ("lit", "a"), ("escr",)) if rng.random() < 0.7 else ())
    e3 = ("template", const or (("lit", "a"),), [])
    e4 = ("option", K(17), ("template", const or (("lit", "a"),), []), None)
    return [e0, e1, e2, e3, e4]


def plant_container(rng, o):
    """defect zone D1: a templated string inside a list / section value"""
    o = dict(o)
    target = rng.choice(REF_ORDER[2:])
    r = rng.random()
    if r < 0.4:
        o[10] = [S(("ref", target))] + [rng.choice([1, None])] * rng.randint(0, 1)
    elif r < 0.7:
        o[11] = [S(("lit", "p"), ("ref", target))]
        o[10] = S(("ref", K(11)))            # reached through a single reference
    else:
        sec = dict(o.get(SEC) or {}) if isinstance(o.get(SEC), dict) else {}
        # only keys of higher rank than S.X: a lower one may reference S.X itself (twice), and a
        # cyclic chain that doubles per round exhausts the memory before CPython's recursion limit
        target = rng.choice([K(*DEEP), K(14)])
        sec[SX] = S(("ref", target))
        o[SEC] = sec                         # Option('SEC') reads the whole section
    return o


def gen_scenario(rng, depth, defect=None):
    esc_values = rng.random() < 0.5
    exprs = gen_exprs(rng, defect, esc_values)
    ep = 0.12 if esc_values else 0.0
    base, vdepth = gen_options(rng, depth, escapes_p=ep)
    if defect == "D1":
        base = plant_container(rng, base)
    pool = [base]
    # neighbours: one value changed / one key deleted / empty / unrelated
    o = dict(base)
    k = rng.choice(REF_ORDER)
    pool.append(put_path(o, k, rng.choice(SCALARS)) if rng.random() < 0.5 else del_path(o, k))
    if rng.random() < 0.35:
        pool.append({})
    # the smallest dictionary the independent substitution says suffices for one of the expressions
    j = rng.randrange(len(exprs))
    _, sp = spec_outcome(exprs[j], base, {FIRST: ("first",)})
    small = {}
    for k in sp.reads:
        try:
            v = jget(base, k)
        except (KeyError, Undef):
            continue
        if all(s[0] == "n" for s in k):
            set_path(small, k, v)
    pool.append(small)
    other, _ = gen_options(rng, depth, escapes_p=ep)
    pool.append(plant_container(rng, other) if defect == "D1" else other)
    ops = [(m, i, False, False, o) for o in pool for i in range(len(exprs))
           for m in ("evaluate", "keys", "explain", "validate")]
    return dict(ftable={FIRST: ("first",)}, env={}, exprs=exprs, ops=ops, pool=pool, defect=defect)


def malformed_scenario(rng):
    """references that cannot be resolved: cyclic chains, scalar parents, list indices,
    whole sections inside a string, absent keys everywhere"""
    r = rng.random()
    o = {10: 1, SEC: {SX: 2}, LST: [1, 2]}
    if r < 0.25:
        o = {10: S(("ref", K(11))), 11: S(("lit", "a"), ("ref", K(10)))}
        toks = (("ref", K(10)),)
    elif r < 0.45:
        toks = (("lit", "a"), ("ref", K(10, SX)))                 # scalar parent
    elif r < 0.6:
        toks = (("ref", K(LST, "i1")), ("lit", "/"), ("ref", K(LST, "i7")))
    elif r < 0.75:
        toks = (("lit", "s"), ("ref", K(SEC)))                    # str(dict) has braces
    else:
        toks = gen_toks(rng, ABSENT + [K(10)], maxlen=4)
    exprs = [("template", toks, []), ("option", K(10), ("template", toks, []), None), ("option", K(18), ("template", toks, []), None)]
    pool = [o, {}]
    ops = [(m, i, False, False, d) for d in pool for i in range(len(exprs)) for m in ("evaluate", "keys", "explain", "validate")]
    return dict(ftable={FIRST: ("first",)}, env={}, exprs=exprs, ops=ops, pool=pool, defect="malformed")


# ----------------------------------------------------------------------------- long reference chains, negative list indices
CH0, CHSEC = 200, 40                       # chain links are the atoms CH0, CH0+1, ... (flat, or inside the section CHSEC)
MODEL_HOPS = 30                            # the model's resolution budget (Model/EvalRun.v default_fuel = 40) is safely above this many hops


def gen_chain_scenario(rng, hops, nested):
    """options in which link i is a templated string referencing link i+1, `hops` links long, ending in plain values; read from its head by
    a Template (with a parameter), by an Option whose stored value is the first link, by an Option whose templated default mentions it, and
    from a link close to the end (a short chain in the same dictionary).  Neighbours: an end value deleted / a middle link made plain."""
    link = (lambda i: K(CHSEC, CH0 + i)) if nested else (lambda i: K(CH0 + i))
    ends = [K(10), K(SEC, SX)]
    vals = {}
    for i in range(hops - 1):
        r = rng.random()
        if r < 0.3:
            vals[link(i)] = S(("ref", link(i + 1)))                                  # the whole value is one reference
        elif r < 0.7:
            vals[link(i)] = S(("ref", link(i + 1)), ("lit", rng.choice(LITCHARS)))
        else:
            vals[link(i)] = S(("lit", rng.choice(LITCHARS)), ("ref", link(i + 1)), ("escl",), ("escr",))
    vals[link(hops - 1)] = S(("ref", ends[0]), ("lit", "-"), ("ref", ends[1]))
    vals[ends[0]], vals[ends[1]] = rng.choice([lit("a"), 5, None]), rng.choice([lit("b"), 0, True])
    base = {15: rng.choice([1, lit("q")])}
    order = list(vals)
    rng.shuffle(order)
    for k in order:
        set_path(base, k, vals[k])
    mid = rng.randrange(hops // 2, hops - 1)
    near_end = rng.randrange(max(0, hops - 9), hops)
    exprs = [("template", (("lit", "x"), ("ref", link(0)), ("par", 1)), [(1, ("option", K(15), ("value", ("j", 3)), None))]),
             ("option", link(0), None, None),
             ("option", K(17), ("template", (("ref", link(0)), ("lit", "/"), ("ref", K(15))), []), None),
             ("template", (("ref", link(near_end)),), []),
             ("option", link(mid), ("value", ("j", 1)), None)]
    pool = [base, del_path(base, ends[1]), put_path(base, link(mid), rng.choice([7, lit("b")])), del_path(base, link(rng.randrange(1, hops)))]
    ops = [(m, i, False, False, o) for o in pool for i in range(len(exprs)) for m in METHODS]
    scn = dict(ftable={FIRST: ("first",)}, env={}, exprs=exprs, ops=ops, pool=pool, defect="chain", maxdepth=hops + 6, hops=hops)
    if hops > MODEL_HOPS:
        scn["oracle_only"] = True          # beyond the model's budget: the implementation is measured against the independent substitution only
    return scn


def gen_negidx_scenario(rng):
    """list elements addressed from the end ({L.-1}): Python's list indexing, which the lookup of a dotted key inherits; the model's
    indices are naturals, so this family is measured against the independent substitution only"""
    n = rng.randint(1, 3)
    items = [rng.choice([0, 1, None, lit("a"), S(("ref", K(10))), S(("lit", "b"), ("ref", K(SEC, SX)))]) for _ in range(n)]
    base = {LST: items, 10: rng.choice([2, lit("x y")]), SEC: {SX: rng.choice([5, lit("a"), False])}, 15: 1}
    neg = lambda: K(LST, "i-%d" % rng.randint(1, 3))
    exprs = [("template", (("lit", "a"), ("ref", neg()), ("lit", "/"), ("ref", K(LST, "i%d" % rng.randint(0, 2)))), []),
             ("option", neg(), None, None),
             ("option", K(17), ("template", (("ref", neg()), ("lit", "="), ("ref", K(10))), []), None),
             ("option", K(11), ("value", ("j", 0)), None)]
    pool = [base, {**base, LST: items[:-1]}, put_path(base, K(11), S(("ref", neg()), ("lit", "."))), {}]
    ops = [(m, i, False, False, o) for o in pool for i in range(len(exprs)) for m in METHODS]
    return dict(ftable={FIRST: ("first",)}, env={}, exprs=exprs, ops=ops, pool=pool, defect="negative-index", oracle_only=True)


# ----------------------------------------------------------------------------- the independent substitution

class Undef(Exception):
    """outside the domain of the specification (value without a modelled string form, scalar
    parent, option value mentioning a parameter): the case is skipped by the oracle"""


class Missing(Exception):
    def __init__(self, key):
        self.key = key


class Cycle(Exception):
    pass


def jget(o, key):
    cur = o
    for s in key:
        if isinstance(cur, dict):
            if s[0] != "n" or s[1] not in cur:
                raise KeyError(key)
            cur = cur[s[1]]
        elif isinstance(cur, list):
            if s[0] != "i" or not -len(cur) <= s[1] < len(cur):          # a negative index counts from the end (what Python lists do)
                raise KeyError(key)
            cur = cur[s[1]]
        else:
            raise Undef("scalar parent")
    return cur


def is_scalar(v):
    # floats are never sent to the model (no string form there); the oracle-only families use them (str() of a float is what Python says)
    return v is None or isinstance(v, (bool, int, float))


def lits(text):
    return [("lit", c) for c in text]


def final_text(toks):
    return "".join(t[1] if t[0] == "lit" else "{" if t[0] == "escl" else "}" for t in toks)


class Spec:
    MAXDEPTH = 14

    def __init__(self, o, ftable):
        self.o = o
        self.ftable = ftable
        self.reads = {}          # key -> set of provenances ('direct' | 'container')
        self.missing = []        # absent references met, depth first, left to right
        self.maxdepth = 0        # longest reference chain followed
        self.par_braces = False  # some parameter's string form contains a brace (zone D13)
        self.container_templ = False  # a string mentions a container value holding a templated string (zone D1)
        self.n_refs = 0

    def read(self, key, prov):
        try:
            v = jget(self.o, key)
        except KeyError:
            self.reads.setdefault(key, set()).add(prov)
            raise Missing(key)
        self.reads.setdefault(key, set()).add(prov)
        return v

    def strform(self, v):
        if isinstance(v, S):
            if any(t[0] == "par" for t in v.toks):
                raise Undef("option value mentions a parameter")
            return list(v.toks)
        if is_scalar(v):
            return lits(str(v))
        if isinstance(v, list) and all(is_scalar(x) for x in v):
            return lits(str(v))
        if cp.templ_in_container(v, True):
            self.container_templ = True
        raise Undef("string form of a container holding strings/containers")

    def expand(self, toks, parvals, prov, depth):
        if depth > self.MAXDEPTH:
            raise Cycle()
        self.maxdepth = max(self.maxdepth, depth)
        out = []
        for t in toks:
            if t[0] == "ref":
                self.n_refs += 1
                try:
                    v = self.read(t[1], prov)
                except Missing as m:
                    self.missing.append(m.key)     # keep going: collects every absent reference
                    continue
                out += self.expand(self.strform(v), parvals, prov, depth + 1)
            elif t[0] == "par":
                if t[1] not in parvals:
                    raise Undef("parameter not supplied")
                out += parvals[t[1]]
            else:
                out.append(t)
        return out

    def text(self, toks, parvals, prov="direct"):
        out = self.expand(list(toks), parvals, prov, 0)
        if self.missing:
            raise Missing(self.missing[0])
        return final_text(out)

    def value(self, v, prov, depth=0):
        """Option semantics: what the option's raw value resolves to"""
        if depth > self.MAXDEPTH:
            raise Cycle()
        if isinstance(v, S):
            if any(t[0] == "par" for t in v.toks):
                raise Undef("option value mentions a parameter")
            if len(v.toks) == 1 and v.toks[0][0] == "ref":
                self.n_refs += 1
                self.maxdepth = max(self.maxdepth, depth + 1)
                return self.value(self.read(v.toks[0][1], prov), prov, depth + 1)
            if any(t[0] == "ref" for t in v.toks):
                out = self.expand(list(v.toks), {}, prov, depth)
                if self.missing:
                    raise Missing(self.missing[0])
                return final_text(out)
            return final_text(v.toks)
        if isinstance(v, list):
            return [self.value(x, "container", depth) for x in v]
        if isinstance(v, dict):
            return {core.name_of(k): self.value(x, "container", depth) for k, x in v.items()}
        return v

    def ev(self, e):
        k = e[0]
        if k == "value":
            return core.py_value(e[1])
        if k == "option":
            try:
                raw = jget(self.o, e[1])
            except KeyError:
                if e[2] is None:
                    raise Missing(e[1])
                return self.ev(e[2])
            self.reads.setdefault(e[1], set()).add("direct")
            return self.value(raw, "direct")
        if k == "template":
            parvals = {}
            for p, pe in e[2]:
                text = str(self.ev(pe))
                if "{" in text or "}" in text:
                    self.par_braces = True
                parvals[p] = lits(text)
            return self.text(e[1], parvals)
        if k == "call" and self.ftable.get(e[1]) == ("first",):
            return self.ev(e[2][0])
        if k == "apply" and e[2][0] == "fnvalue" and self.ftable.get(e[2][1]) == ("first",):
            return self.ev(e[1])          # `>> f` with f the identity
        raise Undef(k)


def spec_outcome(e, o, ftable):
    sp = Spec(o, ftable)
    try:
        v = sp.ev(e)
        return ("ok", core.show(v)), sp
    except Missing as m:
        return ("missing", m.key), sp
    except Cycle:
        return ("cycle",), sp
    except RecursionError:
        return ("cycle",), sp
    except Undef as u:
        return ("undef", str(u)), sp


# ----------------------------------------------------------------------------- the implementation side

class Impl:
    def __init__(self, scn):
        with warnings.catch_warnings():
            warnings.simplefilter("ignore")
            self.w = core.World(scn["ftable"])
            self.b = core.Builder(self.w, scn["env"])
            self.objs = [self.b.build(e) for e in scn["exprs"]]

    def call(self, i, meth, o):
        return self.call_py(i, meth, core.py_json(o))

    def call_py(self, i, meth, po, flag=None):
        """po is a PYTHON dictionary, handed over as is (the very same object when the caller keeps it alive between calls)"""
        try:
            with warnings.catch_warnings():
                warnings.simplefilter("ignore")
                r = getattr(self.objs[i], meth)(po)
            if meth == "evaluate":
                return ("ok", core.show(core.force(r)))
            if meth == "validate":
                return ("ok", "()")
            return ("ok", frozenset(core.parse_key(k) for k in r))
        except RecursionError:
            return ("err", "fuel")
        except Exception as exc:  # noqa
            c, ee = core.classify(exc)
            if flag is not None:
                flag.append(ee)
            return ("err", c)

    def line(self, i, meth, po):
        """the result part of an observation line, in the vocabulary of core.run_impl / EvalRun.run_op"""
        flag = []
        r = self.call_py(i, meth, po, flag)
        if r[0] == "ok":
            txt = "ok:" + (r[1] if meth != "keys" and meth != "explain" else core.show_keys(core.key_text(k) for k in r[1]))
        elif r[1] == "fuel" and not flag:
            txt = "err:fuel:F"
        else:
            txt = f"err:{r[1]}:{'T' if flag and flag[0] else 'F'}"
        return core.canon_names(txt)


class ObjImpl(Impl):
    """the same interface over objects that were built by hand (alternative spellings)"""

    def __init__(self, objs, world):
        self.objs, self.w = objs, world


class LiveImpl(Impl):
    """the same long-lived objects, always called with ONE options dictionary object, which is edited in place to become the next
    dictionary (sections and lists that exist on both sides keep their identity): a caller who owns one dictionary and updates it"""

    def __init__(self, scn):
        super().__init__(scn)
        self.live = {}

    def call(self, i, meth, o):
        sync_inplace(self.live, core.py_json(o))
        return self.call_py(i, meth, self.live)

    def line_at(self, i, meth, o):
        sync_inplace(self.live, core.py_json(o))
        return self.line(i, meth, self.live)


def sync_inplace(live, target):
    for k in list(live):
        if k not in target:
            del live[k]
    for k, v in target.items():
        cur = live.get(k, sync_inplace)
        if type(v) is dict and type(cur) is dict:
            sync_inplace(cur, v)
        elif type(v) is list and type(cur) is list:
            cur[:] = copy.deepcopy(v)
        else:
            live[k] = copy.deepcopy(v)


class _Spy(dict):
    """an options mapping that, the first time a key is looked up, asks the SAME object for its
    keys() / explain() under a plain copy (a computation started while another one is in progress)"""

    def __init__(self, data, probe):
        super().__init__(data)
        self.probe, self.busy, self.seen = probe, False, []

    def __getitem__(self, key):
        if not self.busy and len(self.seen) < 6:
            self.busy = True
            try:
                self.seen.append(self.probe())
            finally:
                self.busy = False
        return super().__getitem__(key)


def reentrancy_check(impl, i, o):
    """keys()/explain() started while another keys()/explain() of the same graph is in progress (same thread:
    what a concurrent caller in another thread sees too) must answer as on their own"""
    po = core.py_json(o)
    obj = impl.objs[i]
    out = []
    for meth in ("keys", "explain"):
        try:
            with warnings.catch_warnings():
                warnings.simplefilter("ignore")
                alone = frozenset(getattr(obj, meth)(dict(po)))
        except Exception:  # noqa
            continue

        def probe(_m=meth):
            try:
                with warnings.catch_warnings():
                    warnings.simplefilter("ignore")
                    return frozenset(getattr(obj, _m)(dict(po)))
            except Exception as e:  # noqa
                return ("err", type(e).__name__)
        spy = _Spy(po, probe)
        try:
            with warnings.catch_warnings():
                warnings.simplefilter("ignore")
                outer = frozenset(getattr(obj, meth)(spy))
        except Exception as e:  # noqa
            outer = ("err", type(e).__name__)
        bad = [x for x in spy.seen if x != alone]
        if bad or outer != alone:
            out.append(dict(kind=f"{meth}() answers differently while another {meth}() of the same graph is in progress",
                            alone=sorted(alone), nested=[sorted(x) if isinstance(x, frozenset) else x for x in bad[:2]],
                            outer=sorted(outer) if isinstance(outer, frozenset) else outer))
    return out


def related(p, k):
    n = min(len(p), len(k))
    return p[:n] == k[:n]


def leaf_paths(o, prefix=()):
    for k, v in o.items():
        p = prefix + (("n", k),)
        if isinstance(v, dict) and v:
            yield from leaf_paths(v, p)
        else:
            yield p


def missing_keys_of(sp):
    return {core.key_text(k) for k in sp.missing}


def check_case(impl, scn, i, o, stats=None):
    """the oracle on one (expression, dictionary): list of failure dicts"""
    e = scn["exprs"][i]
    want, sp = spec_outcome(e, o, scn["ftable"])
    got = impl.call(i, "evaluate", o)
    fails = []
    if stats is not None:
        stats["kind"][want[0]] = stats["kind"].get(want[0], 0) + 1
    if want[0] == "undef":
        return fails, sp, want, got
    # 1. the text / the missing-key error
    if want[0] == "ok":
        if got != want:
            fails.append(dict(kind="text", desc="evaluate() differs from the independent substitution",
                              want=want[1], got=repr(got)))
    elif want[0] == "missing":
        named = got[1][4:-1] if got[0] == "err" and got[1].startswith("key(") else None
        absent = missing_keys_of(sp) | ({core.key_text(want[1])})
        if named is None or named not in absent:
            fails.append(dict(kind="missing", desc="a referenced key is absent but evaluate() does not fail with a missing-key error naming an absent reference",
                              want="key(" + "|".join(sorted(absent)) + ")", got=repr(got)))
    elif want[0] == "cycle":
        if got[0] != "err":
            fails.append(dict(kind="cycle", desc="cyclic reference chain evaluated", want="error", got=repr(got)))
    # 2. keys() / explain() contain every key the substitution looked up
    reads = set(sp.reads)
    for meth in ("keys", "explain"):
        r = impl.call(i, meth, o)
        if r[0] == "ok":
            unrep = sorted(k for k in reads if k not in r[1])
            if meth == "keys":
                unrep = [k for k in unrep if k not in sp.missing]
            if unrep:
                fails.append(dict(kind=meth, desc=f"{meth}() omits a key the substitution reads",
                                  unreported=[core.key_text(k) for k in unrep], reported=core.show_keys(core.key_text(k) for k in r[1]),
                                  unreported_keys=unrep))
        elif want[0] == "ok" and got[0] == "ok":
            fails.append(dict(kind=meth, desc=f"{meth}() fails where evaluate() succeeds", got=repr(r), unreported_keys=[]))
    return fails, sp, want, got


def looked_up_keys(x):
    """every dotted key that occurs in x as an Option's key or as a template reference (expression nodes, template tokens, S strings)"""
    out = set()
    if isinstance(x, S):
        x = x.toks
    if isinstance(x, tuple):
        if len(x) >= 2 and x[0] in ("option", "ref") and isinstance(x[1], tuple) and x[1] and all(isinstance(s, tuple) and len(s) == 2 for s in x[1]):
            out.add(x[1])
        for y in x:
            out |= looked_up_keys(y)
    elif isinstance(x, list):
        for y in x:
            out |= looked_up_keys(y)
    elif isinstance(x, dict):
        for y in x.values():
            out |= looked_up_keys(y)
    return out


def perturb_case(impl, scn, i, o, sp, got, rng, budget=6):
    """keys() is sufficient by perturbation: changing / deleting an entry unrelated to every
    reported key must not change the outcome of evaluate()"""
    fails, n = [], 0
    ks = impl.call(i, "keys", o)
    if ks[0] != "ok" or got[0] != "ok":
        return fails, n
    cands = [p for p in leaf_paths(o) if not any(related(p, k) for k in ks[1])]
    # (a leaf that is a proper prefix of a key some Option / reference of the graph looks up - an empty section left on the path of an
    #  absent dotted key - would become a scalar PARENT of that key: the zone of finding D6, which is C04's, not a C09 matter)
    lk = looked_up_keys(scn["exprs"][i]) | looked_up_keys(scn["env"]) | looked_up_keys(o)
    cands = [p for p in cands if not any(len(k) > len(p) and tuple(k[:len(p)]) == tuple(p) for k in lk)]
    rng.shuffle(cands)
    for p in cands[:budget]:
        for o2, how in ((put_path(o, p, S(("lit", "Z"), ("lit", "9"))), "changed"), (del_path(o, p), "deleted")):
            n += 1
            got2 = impl.call(i, "evaluate", o2)
            if got2 != got:
                fails.append(dict(kind="perturb", desc=f"an entry outside keys() was {how} and evaluate() moved",
                                  path=core.key_text(p), before=repr(got), after=repr(got2), unreported_keys=[p],
                                  reported=core.show_keys(core.key_text(k) for k in ks[1])))
                return fails, n
    return fails, n


def zone_of_failure(f, sp):
    """D1: every unreported key was read by the independent substitution only inside a container
    value; D13: some parameter's string form contains braces"""
    if sp.par_braces and f["kind"] in ("text", "missing", "perturb"):
        return "D13"
    if f["kind"] == "perturb" and sp.container_templ:
        return "D1"
    ur = f.get("unreported_keys") or []
    if f["kind"] in ("keys", "explain", "perturb") and ur:
        def in_container(k):
            return any(related(k, r) and sp.reads[r] == {"container"} for r in sp.reads)
        if all(in_container(k) for k in ur):
            return "D1"
    return None


# ----------------------------------------------------------------------------- alternative spellings of "an option whose default is a templated string"
METHODS = ("evaluate", "keys", "explain", "validate")
SPELL_KEYS = [K(SEC, 26), K(SEC, SX), K(SEC, SY), K(*DEEP), K(17), K(10)]


def spellings(world, key, toks):
    """every public way of declaring the Option `key` whose default is the templated string `toks` (canonical expression 0), and the
    same followed by `>> f` with f the identity (canonical expression 1): [(label, canonical index, object)]"""
    from labrea import Option, Template
    text, kt = core.str_text(toks), core.key_text(key)
    f = world.fn(FIRST)
    out = [("Option(key, default=<str>)", 0, Option(kt, default=text)),
           ("Option(key, <str>)", 0, Option(kt, text)),
           ("Option(key, default=Template(<str>))", 0, Option(kt, default=Template(text))),
           ("Option[str](key, default=<str>)", 0, Option[str](kt, default=text)),
           ("Option(key, default=<str>, doc=..., type=str)", 0, Option(kt, default=text, doc="documented", type=str)),
           ("Option(key, default=<str>) >> f", 1, Option(kt, default=text) >> f),
           ("Option(key, default=<str>).apply(f)", 1, Option(kt, default=text).apply(f))]
    names = [core.name_of(s[1]) for s in key]
    if len(names) < 2 or any(s[0] != "n" for s in key):
        return out
    path, member = names[:-1], names[-1]

    def ns(value, structure="implicit", annotations=None, item=False):
        attr = path if structure != "renamed" else [f"X{j}" for j in range(len(path))]
        body = {member: value}
        if annotations:
            body["__annotations__"] = dict(annotations)
        node = None
        for depth in range(len(path) - 1, -1, -1):
            cls = type(attr[depth], (), body)
            if depth == 0:
                node = Option.namespace(path[0])(cls) if structure == "renamed" else Option.namespace(cls)
            else:
                inner = cls                                            # implicit sub-namespace: a plain nested class
                if structure == "explicit":
                    inner = Option.namespace(cls)                      # decorated sub-namespace (re-keyed when the parent is built)
                elif structure == "renamed":
                    inner = Option.namespace(path[depth])(cls)         # decorated with an explicit name, class / attribute named otherwise
                body = {attr[depth]: inner}
        cur = node
        for a in attr[1:]:
            cur = getattr(cur, a)
        return cur[member] if item else getattr(cur, member)

    A = Option.auto
    out += [
        ("namespace: M = Option.auto(<str>)", 0, ns(A(text))),
        ("namespace: M = Option.auto(default=<str>, doc=...)", 0, ns(A(default=text, doc="documented"))),
        ("namespace: M = Option.auto(<str>, type=str)", 0, ns(A(text, type=str))),
        ("namespace: M = Option.auto(<str>) >> f", 1, ns(A(text) >> f)),
        ("namespace: M = Option.auto(<str>, doc=...) >> f, item access", 1, ns(A(text, "documented") >> f, item=True)),
        ("namespace: M = <str>", 0, ns(text)),
        ("namespace: M: str = <str>", 0, ns(text, annotations={member: str})),
        ("namespace: M = Option('M', default=<str>)", 0, ns(Option(member, default=text))),
        ("namespace: M = Option('M', <str>)", 0, ns(Option(member, text))),
        ("namespace: M = Option('M', default=Template(<str>))", 0, ns(Option(member, default=Template(text)))),
        ("namespace: M = Template(<str>)", 0, ns(Template(text))),
        ("namespace, item access: M = Option.auto(<str>)", 0, ns(A(text), item=True)),
        ("decorated sub-namespaces: M = Option.auto(<str>)", 0, ns(A(text), "explicit")),
        ("decorated sub-namespaces: M = Option.auto(<str>) >> f", 1, ns(A(text) >> f, "explicit")),
        ("decorated sub-namespaces: M = Option('M', default=<str>)", 0, ns(Option(member, default=text), "explicit")),
        ("decorated sub-namespaces: M = <str>", 0, ns(text, "explicit")),
        ("renamed namespaces: M = Option.auto(<str>)", 0, ns(A(text), "renamed")),
        ("renamed namespaces: M = Option.auto(<str>) >> f", 1, ns(A(text) >> f, "renamed")),
        ("renamed namespaces: M = <str>", 0, ns(text, "renamed")),
        ("renamed namespaces: M = Option('M', default=<str>)", 0, ns(Option(member, default=text), "renamed")),
    ]
    return out


def gen_spelling_scenario(rng, depth):
    esc_values = rng.random() < 0.4
    refs = REF_ORDER + ABSENT[:1] * (rng.random() < 0.1)
    key = rng.choice(SPELL_KEYS)
    toks = gen_toks(rng, [k for k in refs if k != key], maxlen=4)
    e_opt = ("option", key, ("template", toks, []), None)
    exprs = [e_opt, ("apply", e_opt, ("fnvalue", FIRST))]
    base, _ = gen_options(rng, depth, escapes_p=0.12 if esc_values else 0.0)
    absent = prune_path(base, key)
    pool = [base, absent, prune_path(put_path(absent, rng.choice(REF_ORDER), rng.choice(SCALARS)), key)]
    if rng.random() < 0.4:
        pool.append({})
    pool.append(gen_options(rng, depth, escapes_p=0.12 if esc_values else 0.0)[0])
    ops = [(m, i, False, False, o) for o in pool for i in range(len(exprs)) for m in METHODS]
    return dict(ftable={FIRST: ("first",)}, env={}, exprs=exprs, ops=ops, pool=pool, defect=None, spelling=True)


def check_spellings(scn, ml, rng, budget=2, only=None):
    """the oracle on every spelling + the model's lines against every spelling: (failures, mismatches, calls)"""
    e_opt = scn["exprs"][0]
    world = core.World(scn["ftable"])
    with warnings.catch_warnings():
        warnings.simplefilter("ignore")
        sps = spellings(world, e_opt[1], e_opt[2][1])
    if only is not None:
        sps = [x for x in sps if x[0] == only]
    impl = ObjImpl([x[2] for x in sps], world)
    view = dict(scn, exprs=[scn["exprs"][x[1]] for x in sps])
    fails, mism, n, nm = [], [], 0, 0
    for j, (label, idx, _obj) in enumerate(sps):
        for o in scn["pool"]:
            fs, sp, want, got = check_case(impl, view, j, o)
            pf, k = perturb_case(impl, view, j, o, sp, got, rng, budget=budget)
            n += 3 + k
            for f in fs + pf:
                f.pop("unreported_keys", None)
                fails.append(dict(f, desc=f"[{label}] " + f["desc"], spelling=label, expr_index=idx, options=repr(o)))
        if ml is not None:
            sub = [(k, op) for k, op in enumerate(scn["ops"]) if op[1] == idx]
            lines = [impl.line(j, op[0], core.py_json(op[4])) + "|" + " ".join(cp.split(cp.strip_ghost(ml[k]))[1]) for k, op in sub]
            n += len(sub)
            nm += len(sub)
            mls = [ml[k] for k, _ in sub]
            if not cp.agrees(lines, mls, scn):
                bad = next(t for t in range(len(lines)) if not cp.agrees(lines[:t + 1], mls[:t + 1], scn))
                mism.append(dict(where=f"Model/Eval.v vs labrea, the option spelled [{label}]", op=repr(sub[bad][1]),
                                 impl=cp.split(lines[bad])[0], model=cp.split(cp.strip_ghost(mls[bad]))[0],
                                 scenario_repr=cp.dump_scn(dict(scn, ops=[], pool=[]))))
    return fails, mism, n, len(sps), nm


# ----------------------------------------------------------------------------- histories on long-lived objects and one live dictionary

def bit_flip(v):
    """the value of the other type that compares equal: 1 / True, 0 / False (str(1) != str(True))"""
    if v is True:
        return 1
    if v is False:
        return 0
    if type(v) is int and v in (0, 1):
        return bool(v)
    return None


def eq_variant(j, rng, p):
    """a dictionary that compares EQUAL to j in Python but whose 0 / 1 / False / True leaves have the other type (each with chance p)"""
    if isinstance(j, dict):
        return {k: eq_variant(v, rng, p) for k, v in j.items()}
    if isinstance(j, list):
        return [eq_variant(v, rng, p) for v in j]
    b = bit_flip(j)
    return b if (b is not None and rng.random() < p) else j


def float_variant(j):
    """ints and bools replaced by the float that compares equal (1 == True == 1.0, str: '1' / 'True' / '1.0'); outside the model"""
    if isinstance(j, dict):
        return {k: float_variant(v) for k, v in j.items()}
    if isinstance(j, list):
        return [float_variant(v) for v in j]
    return float(j) if isinstance(j, (bool, int)) else j


def gen_history(rng, depth):
    """3 long-lived objects (a Template with parameters, an Option with a possibly templated value, an Option with a templated default)
    called along a sequence of dictionaries in which neighbours compare equal although they differ, a read key disappears / changes and
    the first dictionary comes back; first evaluate only, then every method"""
    esc_values = rng.random() < 0.3
    exprs = gen_exprs(rng, None, esc_values)[:3]
    ft = {FIRST: ("first",)}
    base, _ = gen_options(rng, depth, missing_p=0.0, escapes_p=0.12 if esc_values else 0.0)
    reads = []
    for e in exprs:
        for k in spec_outcome(e, base, ft)[1].reads:
            if k not in reads and all(s[0] == "n" for s in k):
                reads.append(k)
    present = []
    for k in reads:
        try:
            present.append((k, jget(base, k)))
        except (KeyError, Undef):
            pass
    terminal = [k for k, v in present if not isinstance(v, (S, list, dict))]
    rng.shuffle(terminal)
    for k in terminal[:2]:
        base = put_path(base, k, rng.choice([0, 1, True, False]))
    v1 = eq_variant(base, rng, 1.0)
    v2 = eq_variant(base, rng, 0.5)
    rk = [k for k, _ in present] or [rng.choice(REF_ORDER)]
    d1 = del_path(base, rng.choice(rk))
    p1 = put_path(base, rng.choice(rk), rng.choice(SCALARS))
    seq1 = [base, v1, base, d1, v2, p1]
    seq2 = [base, v2, d1, base, v1, p1]
    ops = [("evaluate", i, False, False, o) for o in seq1 for i in range(len(exprs))]
    ops += [(m, i, False, False, o) for o in seq2 for i in range(len(exprs)) for m in METHODS]
    tail = [base, float_variant(base), v1, float_variant(d1), float_variant(base), base]
    return dict(ftable=ft, env={}, exprs=exprs, ops=ops, pool=[], defect=None, history=True, float_tail=tail)


def run_history(scn, ml, float_tail=True, stop_first=True):
    """(failures, correspondence mismatches, calls): every answer of the long-lived objects under the live dictionary must be the one of
    objects that never saw another dictionary (called with a dictionary of their own), must satisfy the independent substitution, and -
    for the part the model can express - must be the model's line"""
    live = LiveImpl(scn)
    fresh = {}

    def fresh_line(i, m, o):
        if repr(o) not in fresh:
            fresh[repr(o)] = Impl(scn)
        return fresh[repr(o)].line(i, m, core.py_json(o))
    fails, mism, lines, n = [], [], [], 0
    ops = list(scn["ops"])
    n_model = len(ops)
    if float_tail:
        ops += [(m, i, False, False, o) for o in scn.get("float_tail", []) for i in range(len(scn["exprs"])) for m in METHODS]
    for k, (m, i, _cc, _lc, o) in enumerate(ops):
        got = live.line_at(i, m, o)
        want = fresh_line(i, m, o)
        n += 2
        if k < n_model:
            lines.append(got)
        if got != want:
            fails.append(dict(kind="history", desc=f"{m}() of a long-lived object, called with one options dictionary object that its owner edits "
                                                   "in place between the calls, differs from the answer of a fresh object under a fresh dictionary",
                              method=m, got=got, want=want, expr_index=i, options=repr(o), position=k,
                              previous=[repr(op[4]) for op in ops[max(0, k - 2 * len(scn["exprs"]) * 4):k] if op[1] == i][-2:],
                              scenario_repr=cp.dump_scn(dict(scn, ops=ops[:k + 1], pool=[], float_tail=[]))))
            if stop_first:
                break
        elif m == "evaluate":
            # the property's own oracle at this point of the history (evaluate / keys / explain of the long-lived object, live dictionary)
            fs, sp, _want, _got = check_case(live, scn, i, o)
            n += 3
            for f in fs:
                z = zone_of_failure(f, sp)
                f.pop("unreported_keys", None)
                fails.append(dict(f, zone=z, expr_index=i, options=repr(o), position=k,
                                  scenario_repr=cp.dump_scn(dict(scn, ops=ops[:k + 1], pool=[], float_tail=[]))))
    if ml is not None and len(lines) == n_model:
        full = [a + "|" + " ".join(cp.split(cp.strip_ghost(b))[1]) for a, b in zip(lines, ml)]
        if not cp.agrees(full, ml, scn):
            bad = next(t for t in range(len(full)) if not cp.agrees(full[:t + 1], ml[:t + 1], scn))
            mism.append(dict(where="Model/Eval.v vs labrea, long-lived objects called with one dictionary object edited in place",
                             op_index=bad, op=repr(scn["ops"][bad]), impl=lines[bad], model=cp.split(cp.strip_ghost(ml[bad]))[0],
                             scenario_repr=cp.dump_scn(dict(scn, pool=[], float_tail=[]))))
    return fails, mism, n


# ----------------------------------------------------------------------------- witnesses / corpus
A, B = 10, 11
WITNESS = {
    "D1": dict(what="Option('A') under {'A': ['{B}'], 'B': 1}: evaluate() -> [1] (reads B), keys() = explain() = {'A'}; changing B changes the value",
               scn=dict(ftable={}, env={}, exprs=[("option", K(A), None, None)], pool=[{A: [S(("ref", K(B)))], B: 1}])),
    "D13": dict(what="Template('{:p1:}', p1='{B}') under {'B': 1}: evaluate() -> '1' instead of the parameter's string form '{B}'; keys() = {} although B is read; under {} validate passes and evaluate raises KeyNotFoundError('B')",
                scn=dict(ftable={}, env={}, exprs=[("template", (("par", 1),), [(1, ("value", ("j", S(("ref", K(B))))))])], pool=[{B: 1}, {}])),
}
# the scenario of the repaired defect D5 (fix 634ec72): must pass; run first
CORPUS = [dict(ftable={FIRST: ("first",)}, env={},
               exprs=[("option", K(A), ("value", ("j", 5)), None), ("option", K(A), None, None),
                      ("template", (("lit", "v"), ("ref", K(A))), [])],
               pool=[{A: S(("ref", K(B)))}, {A: S(("ref", K(B))), B: 3}, {A: S(("lit", "x"), ("ref", K(B)))}, {}])]
for _c in CORPUS:
    _c["ops"] = [(m, i, False, False, o) for o in _c["pool"] for i in range(len(_c["exprs"]))
                 for m in ("evaluate", "keys", "explain", "validate")]
    _c["defect"] = None


def d13_json_witness():
    """the DESIGN.md form of D13, outside the scenario language (a literal brace in a value)"""
    from labrea import Template
    from labrea.types import Value
    from labrea.exceptions import KeyNotFoundError
    t = Template("v={:p:}", p=Value('{"a": 1}'))
    try:
        t.validate({})
        r = t.evaluate({})
        return r != 'v={"a": 1}'
    except KeyNotFoundError:
        return True


def run_witness(fid):
    w = WITNESS[fid]
    scn = dict(w["scn"], ops=[], defect=fid)
    impl = Impl(scn)
    found = []
    import random
    rng = random.Random(1)
    for o in scn["pool"]:
        fails, sp, want, got = check_case(impl, scn, 0, o)
        pf, _ = perturb_case(impl, scn, 0, o, sp, got, rng)
        for f in fails + pf:
            found.append((f["kind"], zone_of_failure(f, sp)))
    return found


# ----------------------------------------------------------------------------- run

READS_PRELUDE = """
Definition c09_reads (t : ftable) (e : expr) (o : dict) : string :=
  let '(r, l) := eval_nc (ucall_of t) default_fuel e o in
  match r with
  | Ok _ => "ok:" ++ show_keys (flat_map (fun ev => match ev with EvRead k true => [k] | _ => [] end) l)
  | Err c _ => "err:" ++ show_cause c
  end.
"""


# ----------------------------------------------------------------------------- the oracle in other interpreters
INTERPRETERS = [
    # label, interpreter flags, environment, run in a worker thread
    ("python -O", ["-O"], {}, False),
    ("python -OO", ["-OO"], {}, False),
    ("a worker thread of a plain interpreter started with -X dev", ["-X", "dev"], {}, True),
]
CHILD_MARK = "@@C09-CHILD@@"
CHILD_SIZES = {True: (10, 3, 3, 3, 5, 3, 1, 3, 2), False: (60, 15, 15, 10, 30, 15, 6, 12, 8)}


def _child_env(extra):
    keep = ("PYTHONPATH", "PYTHONHASHSEED", "PYTHONDONTWRITEBYTECODE", "LABREA_VERIF", "VERIF_REPO", "PATH", "HOME", "LANG", "LC_ALL", "TMPDIR")
    env = {k: v for k, v in os.environ.items() if k in keep}
    env.update(extra)
    return env


def _spawn(flags, extra_env, request):
    cmd = [sys.executable, *flags, "-W", "ignore", "-c", "import props.c09 as m; m.child_main()"]
    # output goes to temporary files: a child that reports many failures must not block on a full pipe
    fout, ferr = tempfile.TemporaryFile("w+"), tempfile.TemporaryFile("w+")
    p = subprocess.Popen(cmd, stdin=subprocess.PIPE, stdout=fout, stderr=ferr, text=True, env=_child_env(extra_env), cwd=lib.ROOT)
    p.files = (fout, ferr)
    p.stdin.write(json.dumps(request))
    p.stdin.close()
    return p


def _collect(p, timeout):
    try:
        p.wait(timeout=timeout)
    except subprocess.TimeoutExpired:
        p.kill()
        return None, "timeout"
    fout, ferr = p.files
    fout.seek(0)
    ferr.seek(0)
    out, err = fout.read(), ferr.read()
    fout.close()
    ferr.close()
    for line in out.splitlines():
        if line.startswith(CHILD_MARK):
            return json.loads(line[len(CHILD_MARK):]), err[-1500:]
    return None, (err or out)[-1500:]


def child_main():
    """entry point of a child interpreter: the implementation-side oracle of this module on a smaller set of scenarios of every stream
    (or the replay of one reported input) in THIS interpreter; no Coq, no grandchildren"""
    req = json.load(sys.stdin)
    out = {}

    def work():
        if "replay" in req:
            still, detail = replay(None, req["replay"])
            out.update(still=still, detail=detail)
            return
        rng = random.Random(req["seed"] + 1)
        scns, _depth = build_scenarios(rng, req["quick"], CHILD_SIZES[bool(req["quick"])])
        violations, _mm, ostats, xstats, _rc, _samples, _distinct, tagged = oracle_pass(scns, None, None, rng, req["quick"])
        untagged = [v for v in violations if not v.get("finding")]
        out.update(violations=untagged[:25], n_violations=len(untagged), tagged=tagged,
                   n=ostats["cases"] * 3 + ostats["perturbations"] + xstats["spelling_calls"] + xstats["history_calls"],
                   optimize=sys.flags.optimize, dev_mode=sys.flags.dev_mode, thread=threading.current_thread() is not threading.main_thread())
    if req.get("thread"):
        t = threading.Thread(target=work)
        t.start()
        t.join()
    else:
        work()
    print(CHILD_MARK + json.dumps(out, default=str))


def start_interpreters(ctx):
    return [(label, flags, env, thread, _spawn(flags, env, dict(seed=ctx.seed, quick=ctx.quick, thread=thread)))
            for label, flags, env, thread in INTERPRETERS]


def collect_interpreters(children, violations, mism, quick):
    info = {}
    for label, flags, env, thread, p in children:
        res, err = _collect(p, 600 if quick else 6000)
        if res is None or "violations" not in res:
            mism.append(dict(where=f"the oracle could not be completed in [{label}]", error=err))
            continue
        want_opt = 2 if "-OO" in flags else 1 if "-O" in flags else 0
        if res["optimize"] != want_opt or res["thread"] != thread:
            mism.append(dict(where=f"child interpreter [{label}] did not start with the requested settings", got=repr(res)[:300]))
        info[label] = dict(evaluations=res["n"], violations=res["n_violations"], tagged=res["tagged"], optimize=res["optimize"])
        for v in res["violations"]:
            violations.append(dict(v, desc=f"[{label}] " + v.get("desc", v.get("kind", "")),
                                   interpreter=dict(label=label, flags=flags, env=env, thread=thread)))
    return info



def oracle_pass(scns, models, model_ok, rng, quick):
    """2./3. the oracle + perturbation on every scenario (implementation only; `models` / `model_ok` are None in a child interpreter,
    where no Coq runs: the correspondence parts are skipped and a failure in a known zone is attributed to that zone)"""
    mism = []
    violations, distinct, tagged = [], set(), {}
    ostats = dict(kind={}, cases=0, perturbations=0, deleted_read_cases=0, depth_hist={}, tokens={}, by_stream={},
                  with_params=0, zone_cases={"D1": 0, "D13": 0})
    read_cases = []   # (scenario index, expr index, dict, spec reads) for the reads triangle
    samples = []
    xstats = dict(spelling_scenarios=0, spellings=0, spelling_calls=0, history_scenarios=0, history_calls=0, model_lines=0)
    def one(si, scn):
        nonlocal mism
        if scn.get("history"):
            fs, mm, n = run_history(scn, (models[si] if models is not None else None))
            xstats["model_lines"] += len(scn["ops"]) if models is not None else 0
            xstats["history_scenarios"] += 1
            xstats["history_calls"] += n
            mism += mm
            for f in fs:
                z = f.pop("zone", None)
                finding = z if (z and (model_ok is None or model_ok[si])) else None
                if finding:
                    tagged[finding] = tagged.get(finding, 0) + 1
                violations.append(dict(f, finding=finding, stream="history", history=True))
            return
        if scn.get("spelling"):
            fs, mm, n, k, nm = check_spellings(scn, (models[si] if models is not None else None), rng, budget=2 if quick else 6)
            xstats["model_lines"] += nm
            xstats["spelling_scenarios"] += 1
            xstats["spellings"] += k
            xstats["spelling_calls"] += n
            mism += mm
            for f in fs:
                violations.append(dict(f, finding=None, stream="spelling", scenario_repr=cp.dump_scn(dict(scn, ops=[], pool=[]))))
        impl = Impl(scn)
        stream = scn.get("defect") or "main"
        for i, e in enumerate(scn["exprs"]):
            for t in (e[1] if e[0] == "template" else ()):
                ostats["tokens"][t[0]] = ostats["tokens"].get(t[0], 0) + 1
            if e[0] == "template" and e[2]:
                ostats["with_params"] += 1
            dicts = list(scn["pool"])
            extra = []
            for o in dicts:
                fails, sp, want, got = check_case(impl, scn, i, o, ostats)
                ostats["cases"] += 1
                ostats["by_stream"][stream] = ostats["by_stream"].get(stream, 0) + 1
                pf, n = perturb_case(impl, scn, i, o, sp, got, rng, budget=4 if quick else 8)
                ostats["perturbations"] += n
                if want[0] != "undef":
                    ostats["depth_hist"][sp.maxdepth] = ostats["depth_hist"].get(sp.maxdepth, 0) + 1
                    if sp.reads and want[0] in ("ok", "missing"):
                        distinct.add(lib.stable_hash([repr(e), repr(o)]))
                    if want[0] == "ok" and not sp.par_braces and stream != "malformed" and not scn.get("oracle_only"):
                        read_cases.append((si, i, o, sorted(sp.reads)))
                    if len(samples) < 6 and sp.maxdepth >= 2 and want[0] == "ok":
                        samples.append(dict(expr=repr(e)[:300], options=repr(core.py_json(o))[:300], text=want[1],
                                            keys=repr(impl.call(i, "keys", o))[:200], reads=[core.key_text(k) for k in sp.reads]))
                    # sentence 2 by perturbation: delete a key the substitution read
                    if want[0] == "ok" and o is scn["pool"][0]:
                        for k in sorted(sp.reads)[:2]:
                            if all(s[0] == "n" for s in k):
                                extra.append(del_path(o, k))
                for f in fails + pf:
                    z = zone_of_failure(f, sp)
                    finding = z if (z and (model_ok is None or model_ok[si])) else None
                    if z:
                        ostats["zone_cases"][z] += 1
                    if finding:
                        tagged[finding] = tagged.get(finding, 0) + 1
                    f.pop("unreported_keys", None)
                    violations.append(dict(f, finding=finding, expr_index=i, options=repr(o), stream=stream,
                                           scenario_repr=cp.dump_scn(dict(scn, ops=[], pool=[]))))
            if stream == "main" and scn["pool"]:
                ostats["reentrancy_cases"] = ostats.get("reentrancy_cases", 0) + 1
                for f in reentrancy_check(impl, i, scn["pool"][0]):
                    violations.append(dict(f, finding=None, expr_index=i, options=repr(scn["pool"][0]), stream=stream + "/re-entrant",
                                           scenario_repr=cp.dump_scn(dict(scn, ops=[], pool=[]))))
            for o in extra:
                fails, sp, want, got = check_case(impl, scn, i, o, ostats)
                ostats["cases"] += 1
                ostats["deleted_read_cases"] += 1
                for f in fails:
                    z = zone_of_failure(f, sp)
                    finding = z if (z and (model_ok is None or model_ok[si])) else None
                    f.pop("unreported_keys", None)
                    violations.append(dict(f, finding=finding, expr_index=i, options=repr(o), stream=stream + "/deleted-read",
                                           scenario_repr=cp.dump_scn(dict(scn, ops=[], pool=[]))))

    for si, scn in enumerate(scns):
        with profile(scn):
            n0 = len(violations)
            one(si, scn)
            if scn.get("name_profile"):
                ostats["by_stream"]["names: " + scn["name_profile"]] = ostats["by_stream"].get("names: " + scn["name_profile"], 0) + 1
                for v in violations[n0:]:
                    v["desc"] = f"[option names: {scn['name_profile']}] " + v.get("desc", v.get("kind", ""))
                    v["names"] = {core.name_of(a): f"K{a}" for a in scn["names"]}
    return violations, mism, ostats, xstats, read_cases, samples, distinct, tagged


def build_scenarios(rng, quick, sizes):
    depth = 3 if quick else 5
    n_main, n_d1, n_d13, n_mal, n_sp, n_hist, n_names, n_chain, n_neg = sizes
    scns = list(CORPUS)
    for _, cs in corpus_for(PID):            # scenarios of repaired defects registered for this property
        pool = []
        for op in cs["ops"]:
            if op[4] not in pool:
                pool.append(op[4])
        scns.append(dict(cs, pool=pool, defect=None))
    for j in range(n_main):
        scns.append(gen_scenario(rng, depth if j % 4 else max(1, depth - 1)))
    for _ in range(n_d1):
        scns.append(gen_scenario(rng, depth, "D1"))
    for _ in range(n_d13):
        scns.append(gen_scenario(rng, depth, "D13"))
    for _ in range(n_mal):
        scns.append(malformed_scenario(rng))
    for j in range(n_sp):
        scns.append(gen_spelling_scenario(rng, depth if j % 3 else 1))
    for j in range(n_hist):
        scns.append(gen_history(rng, depth if j % 3 else 1))
    # every stream once more under each profile of unusual option names (n_names main scenarios per profile, one spelling scenario, one history)
    for label, names in NAME_PROFILES:
        for j in range(n_names):
            scns.append(dict(gen_scenario(rng, depth), names=names, name_profile=label))
        if n_names:
            scns.append(dict(malformed_scenario(rng), names=names, name_profile=label))
            scns.append(dict(gen_spelling_scenario(rng, depth), names=names, name_profile=label))
            scns.append(dict(gen_history(rng, depth), names=names, name_profile=label))
    # reference chains of 11 .. 40 hops (flat and inside a section); the last one under a name profile
    for j in range(n_chain):
        hops = rng.randint(11, MODEL_HOPS) if j % 3 != 2 else rng.randint(MODEL_HOPS + 1, 40)
        scn = gen_chain_scenario(rng, hops, nested=bool(j % 2))
        if j == n_chain - 1:
            scn.update(names=NAME_PROFILES[0][1], name_profile=NAME_PROFILES[0][0])
        scns.append(scn)
    for j in range(n_neg):
        scn = gen_negidx_scenario(rng)
        if j % 2:
            label, names = NAME_PROFILES[j // 2 % len(NAME_PROFILES)]
            scn.update(names=names, name_profile=label)
        scns.append(scn)
    return scns, depth


def run(ctx):
    rng = ctx.rng
    children = start_interpreters(ctx)
    n_main, n_d1, n_d13, n_mal, n_sp, n_hist, n_names, n_chain, n_neg = sizes = (48, 10, 10, 8, 14, 8, 3, 6, 4) if ctx.quick else (480, 100, 100, 60, 140, 80, 30, 60, 40)
    scns, depth = build_scenarios(rng, ctx.quick, sizes)

    # 1. correspondence: model vs implementation on the histories
    # small shards: one generated file holds the concatenated observation lines of its scenarios,
    # and Coq's (non tail-recursive) string concatenation overflows the stack on very long ones
    # (one run per name profile: the model speaks of atoms, the implementation is run under the profile's names; the scenarios that the
    # model cannot express - negative indices, chains beyond its resolution budget - are left to the oracle)
    impls, models, mism, stats = [None] * len(scns), [None] * len(scns), [], {}
    groups = {}
    for si, scn in enumerate(scns):
        if not scn.get("oracle_only"):
            groups.setdefault(scn.get("name_profile"), []).append(si)
    for gi, (label, idx) in enumerate(groups.items()):
        with profile(scns[idx[0]] if label else {}):
            il, ml, mm, st = cp.correspondence(ctx, [scns[si] for si in idx], "Cases_C09" + (f"_names{gi}" if label else ""), shard=10)
        for si, a, b in zip(idx, il, ml):
            impls[si], models[si] = a, b
        for m_ in mm:
            if label:
                m_["where"] = m_.get("where", "") + f" [option names: {label}]"
                m_["names"] = dict(scns[idx[0]]["names"])
        mism += mm
        for k, v in st.items():
            if isinstance(v, dict):
                d = stats.setdefault(k, {})
                for k2, v2 in v.items():
                    d[k2] = d.get(k2, 0) + v2
            else:
                stats[k] = stats.get(k, 0) + v
    model_ok = [ml is not None and cp.agrees(il, ml, s) for s, il, ml in zip(scns, impls, models)]

    # 2./3. oracle + perturbation
    violations, mm, ostats, xstats, read_cases, samples, distinct, tagged = oracle_pass(scns, models, model_ok, rng, ctx.quick)
    mism += mm
    pr = core.CoqPrinter({})

    # the reads triangle: the model's logged present reads == the reads of the independent substitution
    cap = 900 if ctx.quick else 9000
    read_cases = read_cases[:cap]
    exprs = [f"c09_reads {core.coq_ftable(scns[si]['ftable'])} {pr.expr(scns[si]['exprs'][i])} {core.coq_dict(o)}"
             for si, i, o, _ in read_cases]
    outs = ctx.coq_eval("Reads_C09", cp.REQ, READS_PRELUDE, exprs, shard=100) if exprs else []
    reads_compared = 0
    for (si, i, o, reads), out in zip(read_cases, outs):
        if not out.startswith("ok:"):
            continue            # the model is outside its universe / fails: covered by the history comparison
        reads_compared += 1
        want = core.canon_names(core.show_keys(core.key_text(k) for k in reads))
        if out[3:] != want:
            mism.append(dict(where="Model/Eval.v logged reads (EvRead) vs the reads of the independent substitution",
                             expr=repr(scns[si]["exprs"][i]), options=repr(o), model=out[3:], spec=want))

    interp = collect_interpreters(children, violations, mism, ctx.quick)
    known = []
    for fid in ("D1", "D13"):
        found = run_witness(fid)
        still = any(z == fid for _, z in found)
        if fid == "D13":
            still = still and d13_json_witness()
        known.append(dict(id=fid, still_fails=still, what=WITNESS[fid]["what"], oracle_failures=[k for k, _ in found]))

    return {
        "evaluations": ostats["cases"] * 3 + ostats["perturbations"] + stats["ops"] + reads_compared + xstats["spelling_calls"] + xstats["history_calls"]
                       + sum(i["evaluations"] for i in interp.values()),
        "distinct_nontrivial": len(distinct),
        "rule": "template strings of 1-6 tokens over {literal, {KEY}, {DOTTED.KEY}, {:p:}, escaped braces} as Template, as the value of an Option and as "
                "the default of an Option; 0-2 parameters (Option, constant, user function of an Option, templated Option, Template); options whose values are "
                f"scalars or templated strings in acyclic chains up to reference depth {depth}, with neighbours (one value changed, one key deleted, empty, "
                "unrelated); separate streams for D1 (templated strings inside list/section values), D13 (parameter text with braces) and malformed "
                "references (cycles, scalar parents, list indices, sections, absent keys); a spelling stream (the Option with a templated default declared "
                "through every public spelling: Option(key, default=str / Template), Option[str], >> f, and inside @Option.namespace classes: Option.auto "
                "with / without doc, type, >> f, plain string members, annotated members, Option / Template members, item access, implicit / decorated / "
                "renamed sub-namespaces); a history stream (long-lived Template / Option objects called with ONE options dictionary object edited in place, "
                "neighbouring dictionaries that compare equal although they differ: 0/False, 1/True and - outside the model - 1.0); every stream once more "
                "under three profiles of option NAMES at the edges of the accepted charset (hyphens, spaces, slashes, punctuation, case-only differences, "
                "padding, non-ASCII, tabs, line breaks, numeric look-alikes); reference chains of 11-40 hops, flat and inside a section (up to 30 hops against "
                "the model, beyond against the independent substitution only); list elements addressed by negative indices (oracle only). Non-trivial = the independent substitution is defined and "
                "looked up at least one option key; distinct by hash of (expression, dictionary).",
        "samples": samples,
        "traces_validated_against_impl": stats["ops"] + reads_compared + xstats["model_lines"],
        "correspondence_mismatches": mism[:5],
        "violations": violations,
        "known": known,
        "distribution": dict(stats, oracle=ostats, oracle_failures_tagged=tagged, scenarios=len(scns), reads_compared=reads_compared,
                             streams=dict(main=n_main, D1=n_d1, D13=n_d13, malformed=n_mal, corpus=len(CORPUS), spelling=n_sp, history=n_hist,
                                          name_profiles=len(NAME_PROFILES), scenarios_per_name_profile=n_names + 3, chains=n_chain, negative_indices=n_neg,
                                          oracle_only=sum(1 for x in scns if x.get("oracle_only"))), extended=xstats, interpreters=interp),
        "exhaustive": False,
        "assumptions": ["literal characters exclude { } \\ : (the token view coincides with confectioner's regex scan); floats, cyclic chains in the main stream and "
                        "option values mentioning parameters are not generated",
                        "when several references are absent Python names one by set order: the oracle accepts any absent reference the substitution meets",
                        "user code in parameters is deterministic"],
        "trusted_base": ["confectioner.templating.resolve/get_dotted_key/find_template_keys and CPython str() on None/bool/int/list are modelled (Model/Template.v), "
                         "validated by this correspondence run; the oracle's substitution (class Spec, ~100 lines) is an independent re-implementation of the property text"],
    }


def replay(ctx, payload):
    scn = cp.load_scn(payload["scenario_repr"])
    with profile(scn):
        return _replay(ctx, payload, scn)


def _replay(ctx, payload, scn):
    o = eval(payload["options"], {"S": S})
    if "interpreter" in payload:                                    # found in a child interpreter: replay it there
        it = payload["interpreter"]
        inner = {k: v for k, v in payload.items() if k != "interpreter"}
        res, err = _collect(_spawn(it["flags"], it["env"], dict(replay=inner, thread=it["thread"])), 600)
        if res is None:
            return True, dict(note="the child interpreter could not replay the input", error=err)
        return bool(res["still"]), dict(interpreter=it["label"], detail=res["detail"])
    if payload.get("history"):
        fails, _mm, _n = run_history(dict(scn, history=True), None, float_tail=False, stop_first=False)
        fails = [f for f in fails if f["kind"] == "history" or f["position"] == len(scn["ops"]) - 1]
        return bool(fails), dict(failures=[{k: v for k, v in f.items() if k != "scenario_repr"} for f in fails[:4]])
    if payload.get("spelling"):
        scn = dict(scn, pool=[o])
        fails, _mm, _n, _k, _nm = check_spellings(scn, None, random.Random(1), budget=50, only=payload["spelling"])
        return bool(fails), dict(failures=fails[:4])
    i = payload["expr_index"]
    scn = dict(scn, pool=[o], ops=[(m, i, False, False, o) for m in ("evaluate", "keys", "explain", "validate")])
    impl = Impl(scn)
    fails, sp, want, got = check_case(impl, scn, i, o)
    pf, _ = perturb_case(impl, scn, i, o, sp, got, random.Random(1), budget=50)
    pf = pf + reentrancy_check(impl, i, o)
    if ctx is None:                     # in a child interpreter: the implementation-side oracle only
        return bool(fails or pf), dict(spec=repr(want), impl=repr(got),
                                       failures=[{k: v for k, v in f.items() if k != "unreported_keys"} for f in fails + pf])
    if scn.get("oracle_only"):          # outside what the model can express: the oracle alone decides
        return bool(fails or pf), dict(spec=repr(want), impl=repr(got),
                                       failures=[{k: v for k, v in f.items() if k != "unreported_keys"} for f in fails + pf])
    il = core.run_impl(scn)
    ml = ctx.coq_eval("Replay_C09", cp.REQ, "", [core.coq_scenario(scn)])[0].split(" ## ")
    agrees = cp.agrees(il, ml, scn)
    detail = dict(spec=repr(want), impl=repr(got), failures=[{k: v for k, v in f.items() if k != "unreported_keys"} for f in fails + pf],
                  zones=[zone_of_failure(f, sp) for f in fails + pf], impl_lines=il, model_lines=[cp.strip_ghost(x) for x in ml], model_agrees=agrees)
    return bool(fails or pf) or not agrees, detail
