"""C11 - explain() covers keys() and names every missing option.

Reuses the quadruple runner, the syntactic analyses and the attribution rule of props/c10.py.
Own oracles, straight from the property text, on the implementation only:
  superset   explain(o) and keys(o) both succeed  =>  keys(o) is a subset of explain(o)
  complete   no key listed by explain(o) is absent from o  =>  validate(o) has no missing-option failure
  sound      some listed key is absent from o  =>  validate(o) fails
  listed     validate(o) fails for the missing option k and explain(o) succeeds  =>  k is listed
  insuff     explain(o) fails  =>  with InsufficientInformationError
  bodies     explain(o) runs only bodies in chooser position
and the iterative use: every sub-dictionary of a sufficient dictionary (exhaustive up to 6 leaf keys),
add what explain lists until validate passes.
"""
import collections
import collections.abc
import itertools
import types

import core
import coreprop as cp
import gen
import lib
from core import S, lit
from gen import K
from witnesses import corpus_for
from props import c10 as base
from props.c10 import METHODS, ok, cause, missing_key, called, keyset, res_of, quad, opt, val

PID = "C11"
COQ_TARGETS = cp.COQ_TARGETS
KNOWN = ["D1", "D4", "D6", "D9", "D13", "AO1"]


def name_text(t):
    """the dotted key as the implementation spells it (observations print canonical atom names)"""
    return core.key_text(core.parse_key(t))


def absent_listed(o, xs):
    """the listed keys that are absent from o (decided on the python dictionary)"""
    po = core.py_json(o)
    return sorted(t for t in xs if base.lookup(po, name_text(t)) != "found")


EXCLUDED = {}


def unhashable_dispatch_zone(scn, e, o):
    """a switch / overload dispatch is reachable and some option value or computed value is a list or a dictionary:
    looking a container up in the dispatch table raises TypeError (unhashable) from all four
    methods; dispatch values are documented to be hashable, so this is outside the property"""
    disp = any(x[0] == "switch" or (x[0] == "dataset" and any(r == "chooser" for r, _ in base.children(scn, x)))
               for x in base.nodes(scn, e))
    container = any(isinstance(v, (list, dict)) for d in [o] + base.presets_of(scn, e) for v in d.values())
    computed = any(x[0] in ("list", "dict", "tolist", "map", "iter", "alloptions") or
                   (x[0] == "value" and x[1][0] == "j" and isinstance(x[1][1], (list, dict))) for x in base.nodes(scn, e))
    return disp and (container or computed)


def oracle_c11(scn, i, o, q, first):
    e = scn["exprs"][i]
    z = base.zones(scn, e, o)
    out = []
    okx, okk, okv = ok(q["explain"]), ok(q["keys"]), ok(q["validate"])
    mk = missing_key(q["validate"])
    if okx:
        xs = keyset(q["explain"])
        if okk and not keyset(q["keys"]) <= xs:
            out.append(("superset", dict(keys=res_of(q["keys"]), explain=res_of(q["explain"])), []))
        ab = absent_listed(o, xs)
        if not ab and mk is not None:
            out.append(("complete", dict(explain=res_of(q["explain"]), validate=res_of(q["validate"])),
                        [f for f in ("D1", "D4", "D13", "D6", "AO1") if f in z]))
        if ab and okv:
            out.append(("sound", dict(explain=res_of(q["explain"]), absent=ab, validate=res_of(q["validate"])),
                        [f for f in ("D9",) if f in z and first is not None]))
        if mk is not None and mk not in xs:
            out.append(("listed", dict(explain=res_of(q["explain"]), validate=res_of(q["validate"])),
                        [f for f in ("D1", "D4", "D13", "D6", "AO1") if f in z]))
    else:
        c = cause(q["explain"])
        raw_user = c.startswith("user(") and res_of(q["explain"]).endswith(":F")
        unhashable = c == "type" and "D6" not in z and unhashable_dispatch_zone(scn, e, o)
        if raw_user or unhashable:
            key = "explain raised the user function's own exception" if raw_user else "explain raised TypeError: dispatch value is a container (unhashable)"
            EXCLUDED[key] = EXCLUDED.get(key, 0) + 1
        elif c != "insuff":
            out.append(("insuff", dict(explain=res_of(q["explain"])), [f for f in ("D6",) if f in z]))
    allowed = base.chooser_fids(scn, e)
    extra = [f for f in called(q["explain"]) if f not in allowed]
    if extra:
        out.append(("bodies", dict(method="explain", ran=extra, allowed=sorted(allowed), events=cp.split(q["explain"])[1]), []))
    return out


DESC = {
    "superset": "explain() and keys() both succeed and keys() reports a key explain() does not list",
    "complete": "no key listed by explain() is absent from the dictionary, yet validate() fails because of a missing option",
    "sound": "explain() lists a key that is absent from the dictionary, yet validate() passes",
    "listed": "validate() fails for a missing option that explain() (which succeeds) does not list",
    "insuff": "explain() fails with something other than InsufficientInformationError",
    "bodies": "explain() ran a body that is not in chooser position",
    "iterate": "adding the options explain() lists to a sub-dictionary of a sufficient dictionary does not reach a dictionary that validates",
}

# ----------------------------------------------------------------------------- the iterative use


def leaves(j, prefix=()):
    """leaf paths of a scenario dictionary (sections are descended; lists and scalars are leaves)"""
    out = []
    for k, v in j.items():
        if isinstance(v, dict) and v:
            out += leaves(v, prefix + (k,))
        else:
            out.append(prefix + (k,))
    return out


def deep(j):
    if isinstance(j, dict):
        return {k: deep(v) for k, v in j.items()}
    if isinstance(j, list):
        return [deep(v) for v in j]
    return j


def get_path(j, path):
    for k in path:
        j = j[k]
    return j


def set_path(j, path, v):
    for k in path[:-1]:
        j = j.setdefault(k, {})
    j[path[-1]] = v


def sub_dict(full, paths):
    d = {}
    for p in paths:
        set_path(d, p, deep(get_path(full, p)))
    return d


def path_of_text(t):
    """the scenario-dictionary path of a listed key, None when it indexes a list"""
    key = core.parse_key(t)
    return None if any(s[0] == "i" for s in key) else tuple(s[1] for s in key)


def supply(full, d, t):
    """copy the value of the listed key t from the sufficient dictionary; False when it has none"""
    key = core.parse_key(t)
    path = []
    cur = full
    for s in key:
        if s[0] == "i":          # an index into a list: supply the whole list
            break
        if not isinstance(cur, dict) or s[1] not in cur:
            return False
        cur = cur[s[1]]
        path.append(s[1])
    if not path:
        return False
    set_path(d, tuple(path), deep(get_path(full, tuple(path))))
    return True


def one(scn, i, o, m):
    return core.run_impl(base.mini(scn, i, [(m, 0, False, False, o)]))[0]


def iterate(scn, i, full, start, one=one):
    """-> (outcome, rounds, failure detail or None).  Each round checks complete/sound on the
    current dictionary, then adds the listed absent keys from the sufficient dictionary.
    one(scn, i, dictionary, method): how the object is asked (default: a freshly built expression)"""
    d = deep(start)
    bound = len(leaves(full)) + 2
    for rnd in range(bound + 1):
        x, v = one(scn, i, d, "explain"), one(scn, i, d, "validate")
        if not ok(x):
            return ("explain-insufficient" if cause(x) == "insuff" else "explain-other-failure"), rnd, None
        xs = keyset(x)
        ab = absent_listed(d, xs)
        if not ab:
            if ok(v):
                return "converged", rnd, None
            if missing_key(v) is not None:
                return "violation", rnd, dict(kind="complete", dictionary=repr(d), explain=res_of(x), validate=res_of(v))
            return "blocked-by-other-failure", rnd, None
        if ok(v):
            return "violation", rnd, dict(kind="sound", dictionary=repr(d), explain=res_of(x), absent=ab, validate=res_of(v))
        progressed = False
        for t in ab:
            progressed = supply(full, d, t) or progressed
        if not progressed:
            return "not-in-sufficient-dictionary", rnd, None
    return "violation", bound, dict(kind="iterate", dictionary=repr(d), note="no convergence within the bound")


def iterative_cases(ctx, cases, budget):
    """(scn, i, sufficient dictionary) with 1..6 leaf keys, validate passes, explain lists something"""
    out = []
    for scn, pool in cases:
        for i in range(len(scn["exprs"])):
            for full in pool:
                ls = leaves(full)
                if not (1 <= len(ls) <= 6):
                    continue
                if not ok(one(scn, i, full, "validate")):
                    continue
                x = one(scn, i, full, "explain")
                if not ok(x) or not keyset(x):
                    continue
                out.append((scn, i, full))
                break
        if len(out) >= budget:
            break
    return out


def run_iterative(ctx, cases, budget):
    violations, stats, subdicts = [], {}, 0
    picked = iterative_cases(ctx, cases, budget)
    for scn, i, full in picked:
        ls = leaves(full)
        for r in range(len(ls) + 1):
            for sub in itertools.combinations(ls, r):
                start = sub_dict(full, sub)
                subdicts += 1
                outcome, rounds, detail = iterate(scn, i, full, start)
                stats[outcome] = stats.get(outcome, 0) + 1
                if outcome == "violation":
                    o = eval(detail["dictionary"], {"S": S})
                    more = dict(sufficient=repr(full), start=repr(start), rounds=rounds)
                    found = [(scn, i, o, None, kind, dict(det, **more), cands)
                             for kind, det, cands in oracle_c11(scn, i, o, base.quad_cold(scn, i, o), None)
                             if kind in ("complete", "sound", "listed")]
                    violations += found or [(scn, i, o, None, "iterate", dict(detail, **more), [])]
    return violations, dict(sufficient_dictionaries=len(picked), sub_dictionaries=subdicts, outcomes=stats)


# ----------------------------------------------------------------------------- late registration

def ask(obj, m, po):
    """one method on a live object, canonicalised like core.run_impl (no event log)"""
    try:
        if m == "validate":
            obj.validate(po)
            return "ok:()|"
        r = obj.keys(po) if m == "keys" else obj.explain(po)
        return core.canon_names("ok:" + core.show_keys(r) + "|") if hasattr(core, "canon_names") else "ok:" + core.show_keys(r) + "|"
    except RecursionError:
        return "err:fuel:F|"
    except Exception as exc:  # noqa
        c, ee = core.classify(exc)
        line = f"err:{c}:{'T' if ee else 'F'}|"
        return core.canon_names(line) if hasattr(core, "canon_names") else line


def late_registration(ctx, n):
    """the graph changes between two questions: an implementation is registered on a dataset BELOW
    the asked one after explain/keys/validate were already asked for the same dictionary; the three
    methods must then describe the new graph (oracle only: the model has no such histories)"""
    rng = ctx.rng
    raw, checks = [], 0
    pool_keys = [K(11), K(12), K(20, 21), K(20, 22)]
    for _ in range(n):
        ka, kb = rng.sample(pool_keys, 2)
        v1, v2 = rng.sample([1, 2, lit("a"), lit("b")], 2)
        disp = opt(K(10)) if rng.random() < 0.6 else opt(K(10), val(v2))
        inner = dict(fid=100, kwargs=[opt(ka)], dispatch=disp, overloads=[(("j", v1), val(0))])
        impl2 = rng.choice([opt(kb), ("call", 102, [opt(kb)])])
        outer = dict(fid=101, kwargs=[("dataset", 1)] if rng.random() < 0.6 else [("call", 103, [("dataset", 1)])])
        ft = {100: ("tag",), 101: ("tag",), 102: ("tag",), 103: ("tag",)}
        before = dict(ftable=ft, env={1: inner, 2: outer}, exprs=[("dataset", 2)], ops=[])
        after = dict(before, env={1: dict(inner, overloads=inner["overloads"] + [(("j", v2), impl2)]), 2: outer})
        for present in ([ka], [ka, kb], [kb], []):
            o = {10: v2}
            for k in present:
                base.set_key(o, k, gen.rand_scalar(rng))
            late = (before, ("j", v2), impl2)
            lines, q = late_history(late, o)
            checks += 1
            for kind, detail, cands in oracle_c11(after, 0, o, q, None):
                if kind != "bodies":
                    raw.append((after, 0, o, None, kind, dict(detail, history="asked, then %r registered on the inner dataset, asked again" % (v2,),
                                                             before_registration=[res_of(x) for x in lines], late=repr(late)), []))
    return raw, checks


def late_history(late, o):
    before, alias, impl2 = late
    po = core.py_json(o)
    lines, objs, w, b = core.run_impl(dict(before, ops=[(m, 0, False, False, o) for m in ("explain", "keys", "validate")]),
                                      want_objects=True)
    b.ds[1].register(core.py_value(alias), b.build(impl2))
    q = {m: ask(objs[0], m, po) for m in ("validate", "keys", "explain")}
    q["evaluate"] = "ok:?|"
    return lines, q


# ----------------------------------------------------------------------------- option namespaces
#
# A namespace scenario: dict(ftable, env, ns, ...) with ns = dict(name=atom, style, members=[(attr atom, spec)]):
#   style   top level: "bare" (@Option.namespace class NAME) | "named" (@Option.namespace("NAME") class Anon)
#           nested:    the same two, or "implicit" (a plain nested class NAME)
#   spec    ("ann",)                    NAME: T                                  -> Option(<ns>.NAME)
#           ("anndefault", json)        NAME: T = json                           -> Option(<ns>.NAME, json)
#           ("default", json)           NAME = json                              -> Option(<ns>.NAME, json)
#           ("evdefault", expr)         NAME = <evaluatable>                     -> Option(<ns>.NAME, default=<evaluatable>)
#           ("option", atom, d, dom)    ATTR = Option("KEY"[, d][, domain=dom])  -> Option(<ns>.KEY[, d][, domain=dom])
#           ("auto", d, [fid...], dom)  NAME = Option.auto([default=d][, domain=dom]) >> f...  -> Option(<ns>.NAME[, d][, domain=dom]) >> f ...
#           ("ns", ns')                 a nested namespace                       -> its members under <ns>.<name'>
#   d: None (no default) or a JSON scalar wrapped as ("j", json); dom: None or a JSON list (a container of the allowed values).
# What the namespace stands for is computed HERE from the documentation of Option.namespace / Option.auto
# (ns_members): annotated members first, then the others in declaration order, nested members in place.  For
# explain / keys / validate a namespace must behave like the collection of those options, and each member
# reached by attribute access (NS.NAME, NS.SUB.NAME) like its own option.

NS_NAMES = [20, 23, 26, 27]
NS_ATTRS = [10, 11, 12, 21, 22, 24, 25, 28, 29]


def dflt(d):
    return None if d is None else ("value", d)


def member_expr(path, attr, spec):
    k = spec[0]
    if k == "ann":
        return opt(K(*path, attr))
    if k in ("anndefault", "default"):
        return opt(K(*path, attr), val(spec[1]))
    if k == "evdefault":
        return opt(K(*path, attr), spec[1])
    dom = None if spec[-1] is None else val(spec[-1])
    if k == "option":
        return opt(K(*path, spec[1]), dflt(spec[2]), dom)
    if k == "auto":
        e = opt(K(*path, attr), dflt(spec[1]), dom)
        for f in spec[2]:
            e = ("apply", e, ("fnvalue", f))
        return e
    raise TypeError(spec)


def ordered(ns):
    return [m for m in ns["members"] if m[1][0] in ("ann", "anndefault")] + [m for m in ns["members"] if m[1][0] not in ("ann", "anndefault")]


def ns_members(ns, path):
    out = []
    for attr, spec in ordered(ns):
        if spec[0] == "ns":
            out += ns_members(spec[1], path + (spec[1]["name"],))
        else:
            out.append(member_expr(path, attr, spec))
    return out


def ns_targets(ns, path, attrs=()):
    """every askable object: (attribute path from the root, expression it stands for)"""
    out = [(attrs, ("list", ns_members(ns, path)))]
    for attr, spec in ns["members"]:
        if spec[0] == "ns":
            out += ns_targets(spec[1], path + (spec[1]["name"],), attrs + (attr,))
        else:
            out.append((attrs + (attr,), member_expr(path, attr, spec)))
    return out


def build_ns(b, ns):
    from labrea import Option
    ann, body = {}, {}
    for attr, spec in ns["members"]:
        nm, k = core.name_of(attr), spec[0]
        if k in ("ann", "anndefault"):
            ann[nm] = int
        if k in ("anndefault", "default"):
            body[nm] = core.py_json(spec[1])
        elif k == "evdefault":
            body[nm] = b.build(spec[1])
        elif k == "option":
            kw = {} if spec[3] is None else dict(domain=core.py_json(spec[3]))
            body[nm] = Option(core.name_of(spec[1]), **kw) if spec[2] is None else Option(core.name_of(spec[1]), core.py_value(spec[2]), **kw)
        elif k == "auto":
            kw = {} if spec[3] is None else dict(domain=core.py_json(spec[3]))
            a = Option.auto(doc="d", **kw) if spec[1] is None else Option.auto(default=core.py_value(spec[1]), doc="d", **kw)
            for f in spec[2]:
                a = a >> b.w.fn(f)
            body[nm] = a
        elif k == "ns":
            body[nm] = build_ns(b, spec[1])
    if ann:
        body["__annotations__"] = ann
    name = core.name_of(ns["name"])
    if ns["style"] == "named":
        return Option.namespace(name)(type("Anon", (), body))
    c = type(name, (), body)
    return c if ns["style"] == "implicit" else Option.namespace(c)


def ns_object(nscn, attrs):
    w = core.World(nscn["ftable"])
    obj = build_ns(core.Builder(w, nscn["env"]), nscn["ns"])
    for a in attrs:
        obj = getattr(obj, core.name_of(a))
    return w, obj


def ns_eff(nscn, expr):
    return dict(ftable=nscn["ftable"], env=nscn["env"], exprs=[expr], ops=[])


def ns_quad(nscn, attrs, o):
    """explain / keys / validate on a freshly built namespace (these graphs hold no cache and no other state, so one
    build serves the three questions; evaluate is not part of C11 and is not asked)"""
    po = core.py_json(o)
    w, obj = ns_object(nscn, attrs)
    q = {m: base.ask_obj(w, obj, m, po) for m in ("explain", "keys", "validate")}
    q["evaluate"] = "ok:?|"
    return q


def gen_ns(rng, g, depth, top, used):
    name = rng.choice([a for a in NS_NAMES if a not in used] or NS_NAMES)
    used = used | {name}
    style = rng.choice(["bare", "named"] if top else ["implicit", "implicit", "bare", "named"])
    members, attrs = [], rng.sample(NS_ATTRS, rng.randint(2, 5))
    sc = lambda: ("j", rng.choice([0, 1, 2, 5, lit("a"), lit("b"), True, None]))  # noqa
    dom = lambda: [0, 1, 2, lit("a"), None] if rng.random() < 0.15 else None  # noqa
    for attr in attrs:
        r = rng.random()
        if r < 0.16:
            spec = ("ann",)
        elif r < 0.22:
            spec = ("anndefault", sc()[1])
        elif r < 0.32:
            spec = ("default", sc()[1])
        elif r < 0.38:
            spec = ("evdefault", rng.choice([val(3), ("template", (("lit", "p"), ("ref", K(13))), []), ("call", g.newf(("tag",)), [opt(K(13))]),
                                             ("apply", opt(K(14), val(1)), ("fnvalue", g.newf(("tag",))))]))     # (an Option would be a KEY declaration)
        elif r < 0.50:
            spec = ("option", rng.choice([a for a in NS_ATTRS if a not in attrs] or [attr]) if rng.random() < 0.5 else attr,
                    sc() if rng.random() < 0.4 else None, dom())
        else:
            spec = ("auto", sc() if rng.random() < 0.35 else None, [g.newf(("tag",)) for _ in range(rng.choice([0, 0, 1, 1, 2]))], dom())
        members.append((attr, spec))
    if depth > 0 and rng.random() < 0.6:
        for _ in range(rng.randint(1, 2)):
            sub = gen_ns(rng, g, depth - 1, False, used)
            used = used | {sub["name"]}
            attr = sub["name"] if sub["style"] == "implicit" or rng.random() < 0.6 else rng.choice([28, 29])
            if attr not in [a for a, _ in members] and sub["name"] not in [s[1]["name"] for _, s in members if s[0] == "ns"]:
                members.insert(rng.randint(0, len(members)), (attr, ("ns", sub)))
    # two members do not denote the same option key (an explicit Option("KEY") may name another member's attribute)
    seen, keep = set(), []
    for attr, spec in members:
        key = spec[1] if spec[0] == "option" else (spec[1]["name"] if spec[0] == "ns" else attr)
        if key not in seen:
            seen.add(key)
            keep.append((attr, spec))
    return dict(name=name, style=style, members=keep)


def namespace_scenario(rng):
    g = gen.Gen(rng)
    ns = gen_ns(rng, g, 2, True, frozenset())
    nscn = dict(ftable=dict(g.ftable), env={}, exprs=[], ops=[], ns=ns)
    full = {}
    root = ("list", ns_members(ns, (ns["name"],)))
    keys = sorted(set(base.option_keys(ns_eff(nscn, root), root)), key=core.key_order)
    bounded = {x[1] for x in base.nodes(ns_eff(nscn, root), root) if x[0] == "option" and x[3] is not None}
    for k in keys:             # the sufficient dictionary keeps every value inside its declared domain
        base.set_key(full, k, rng.choice([0, 1, 2, lit("a")] if k in bounded else [0, 1, 2, 5, lit("a"), lit("b"), True]))
    return nscn, full, keys, sorted(bounded, key=core.key_order)


def namespace_stream(ctx, n):
    """-> dict(raw, violations, checks, ops, mismatches, iterative): for the namespace, every nested namespace and
    members reached by attribute access: the C11 oracles under the sufficient dictionary, the dictionary without
    each key in turn, without each section, with an unrecognised member, and the empty one; the iterative use from
    every sub-dictionary (exhaustive up to 6 keys, else from single keys); correspondence with the model on the
    collection of the effective options"""
    rng = ctx.rng
    raw, viol, checks, items, it_stats, subdicts, kinds = [], [], 0, [], {}, 0, {}
    for _ in range(n):
        nscn, full, keys, bounded = namespace_scenario(rng)
        for _, spec in ordered(nscn["ns"]):
            kinds[spec[0]] = kinds.get(spec[0], 0) + 1
        pool = [full, {}]
        for k in keys:
            o = base.deep_copy(full)
            base.del_key(o, k)
            pool.append(o)
        for sec in {k[:-1] for k in keys if len(k) > 1}:
            o = base.deep_copy(full)
            base.del_key(o, sec)
            pool.append(o)
        o = base.deep_copy(full)
        base.set_key(o, K(nscn["ns"]["name"], 31), 1)         # a member the namespace does not declare
        pool.append(o)
        for k in bounded[:2]:                                 # a value outside the declared domain
            o = base.deep_copy(full)
            base.set_key(o, k, 5)
            pool.append(o)
        targets = ns_targets(nscn["ns"], (nscn["ns"]["name"],))
        spaces = [t for t in targets if t[1][0] == "list"]
        leafs = [t for t in targets if t[1][0] != "list"]
        for attrs, expr in spaces + rng.sample(leafs, min(2, len(leafs))):
            eff = ns_eff(nscn, expr)
            for o in pool:
                q = ns_quad(nscn, attrs, o)
                checks += 1
                fails = oracle_c11(eff, 0, o, q, None)
                if not fails:
                    continue
                lk = {}
                for kind, detail, cands in oracle_c11(eff, 0, o, quad(eff, 0, o, None), None):
                    lk.setdefault(kind, (detail, cands))
                for kind, detail, cands in fails:
                    if kind in lk:               # the options themselves fail the same way outside any namespace
                        raw.append((eff, 0, o, None, kind) + lk[kind])
                    else:
                        viol.append(ns_violation(nscn, attrs, expr, o, kind, detail, q))
            if expr[0] == "list":
                ops = [(m, 0, False, False, o) for o in rng.sample(pool, min(4, len(pool))) for m in ("explain", "keys", "validate")]
                w, obj = ns_object(nscn, attrs)
                il = [base.ask_obj(w, obj, m, core.py_json(o)) for m, _, _, _, o in ops]
                items.append((il, dict(eff, ops=ops), cp.dump_scn(dict(nscn, attrs=attrs))))
        # the iterative use on the namespace itself
        eff = ns_eff(nscn, spaces[0][1])
        ls = leaves(full)
        starts = [sub for r in range(len(ls) + 1) for sub in itertools.combinations(ls, r)] if len(ls) <= 6 else [()] + [(p,) for p in ls]

        w0, obj0 = ns_object(nscn, ())

        def one_ns(scn_, i_, d, m):
            return base.ask_obj(w0, obj0, m, core.py_json(d))
        for sub in starts:
            subdicts += 1
            start = sub_dict(full, sub)
            outcome, rounds, detail = iterate(eff, 0, full, start, one=one_ns)
            it_stats[outcome] = it_stats.get(outcome, 0) + 1
            if outcome == "violation":
                o = eval(detail["dictionary"], {"S": S})
                viol.append(ns_violation(nscn, (), spaces[0][1], o, detail["kind"], dict(detail, sufficient=repr(full), start=repr(start), rounds=rounds),
                                         ns_quad(nscn, (), o), iterate_from=(repr(full), repr(start))))
    nops, mism = base.live_correspondence(ctx, "Namespaces_C11", items, "option namespace vs Model/Eval.v on the collection of its effective options")
    return dict(raw=raw, violations=viol, checks=checks, ops=nops, mismatches=mism, scenarios=n, member_kinds=kinds,
                iterative=dict(sub_dictionaries=subdicts, outcomes=it_stats))


def ns_violation(nscn, attrs, expr, o, kind, detail, q, iterate_from=None):
    return dict(desc="option namespace: " + DESC[kind], family="namespace", oracle=kind, options=repr(o), detail=detail, finding=None,
                asked=".".join(core.name_of(a) for a in attrs) or "<the namespace>", stands_for=repr(expr)[:600],
                observed={m: res_of(q[m]) for m in ("explain", "keys", "validate")}, attrs=list(attrs), iterate_from=iterate_from,
                scenario_repr=cp.dump_scn(nscn))


def replay_namespace(ctx, payload):
    nscn = cp.load_scn(payload["scenario_repr"])
    attrs = tuple(payload["attrs"])
    o = eval(payload["options"], {"S": S})
    expr = dict(ns_targets(nscn["ns"], (nscn["ns"]["name"],)))[attrs]
    eff = ns_eff(nscn, expr)
    q = ns_quad(nscn, attrs, o)
    mine = {k: d for k, d, c in oracle_c11(eff, 0, o, q, None)}
    theirs = {k for k, d, c in oracle_c11(eff, 0, o, quad(eff, 0, o, None), None)}
    fails = [(k, d) for k, d in mine.items() if k not in theirs]
    if payload.get("iterate_from"):
        full, start = (eval(x, {"S": S}) for x in payload["iterate_from"])

        def one_ns(scn_, i_, d, m):
            w, obj = ns_object(nscn, ())
            return base.ask_obj(w, obj, m, core.py_json(d))
        outcome, rounds, detail = iterate(eff, 0, full, start, one=one_ns)
        if outcome == "violation":
            fails.append(("iterate", detail))
    return bool(fails), dict(oracle_failures=fails, failures_of_the_options_themselves=sorted(theirs & set(mine)), observed=q, stands_for=repr(expr))


# ----------------------------------------------------------------------------- options given as a Mapping of another KIND
#
# explain / keys / validate take "options": the documentation's Dict, but every lookup of the library goes through the Mapping
# protocol (confectioner.get_dotted_key: options[key], isinstance(options, Mapping)), so a caller may hand over the layered
# ChainMap of a command line over a file, a read-only MappingProxyType, a UserDict, a Mapping of his own, or a dict subclass.
# Measured on the unchanged library: graphs made of Option / Switch / Bind / CaseWhen / Coalesce / Iter / collections /
# Template / function applications answer under such a mapping exactly as under the dict of the same content;
# graphs holding WithOptions, Map (WithOptions inside), datasets or cached(...) do not (confectioner.mix drops or rejects a
# non-dict mapping, the cache fingerprint cannot serialise a non-dict section), so the stream stays in the first group.  The C11 relations are then demanded of the three answers obtained
# under the mapping; "absent from o" is decided on the content.

class _DictSubclass(dict):
    pass


class _UserMapping(collections.abc.Mapping):
    """a minimal read-only Mapping, as a configuration library might hand out"""

    def __init__(self, data):
        self._data = dict(data)

    def __getitem__(self, key):
        return self._data[key]

    def __iter__(self):
        return iter(self._data)

    def __len__(self):
        return len(self._data)


def _chain_split(d):
    """a ChainMap whose layers each hold a part of the entries (overrides over a file) - and a shadowed entry below"""
    items = list(d.items())
    top, low = dict(items[::2]), dict(items[1::2])
    for k, _v in items[:1]:
        low[k] = "shadowed"
    return collections.ChainMap(top, low)


def mapping_kinds():
    return [("dict subclass", _DictSubclass), ("collections.OrderedDict", collections.OrderedDict),
            ("collections.defaultdict without factory", lambda d: collections.defaultdict(None, d)),
            ("collections.ChainMap({}, d)", lambda d: collections.ChainMap({}, d)), ("collections.ChainMap of two layers", _chain_split),
            ("types.MappingProxyType", lambda d: types.MappingProxyType(dict(d))), ("collections.UserDict", collections.UserDict),
            ("a user Mapping", _UserMapping)]


def as_kind(po, f, deep):
    """the python dictionary po as a mapping of another kind (deep: its sections too)"""
    if isinstance(po, dict):
        return f({k: (as_kind(v, f, deep) if deep else v) for k, v in po.items()})
    if isinstance(po, list) and deep:
        return [as_kind(v, f, deep) for v in po]
    return po


def kind_quad(scn, i, o, label, deep):
    """explain / keys / validate, each on a freshly built graph, under the mapping"""
    f = dict(mapping_kinds())[label]
    q = {}
    for m in ("explain", "keys", "validate"):
        _lines, objs, w, _b = core.run_impl(base.mini(scn, i, []), want_objects=True)
        q[m] = base.ask_obj(w, objs[0], m, as_kind(core.py_json(o), f, deep))
    q["evaluate"] = "ok:?|"
    return q


def kind_failures(scn, i, o, label, deep, plain=None):
    """C11 failures under the mapping that the same content as a plain dict does not show"""
    if plain is None:
        plain = {k for k, _d, _c in oracle_c11(scn, i, o, base.quad_cold(scn, i, o), None)}
    q = kind_quad(scn, i, o, label, deep)
    return [(k, d) for k, d, _c in oracle_c11(scn, i, o, q, None) if k not in plain and k != "bodies"], q


def directed_mapping_scenario(rng):
    """the shapes whose explanation depends on what is PRESENT: an option with an evaluatable default whose key is supplied, a supplied
    templated value, a switch whose branch is known only from the options, all under one Iter / list / coalesce"""
    ks = rng.sample([K(10), K(11), K(12), K(13), K(14), K(20, 21), K(20, 22), K(23, 24, 25)], 7)
    v1, v2 = rng.sample([1, 2, lit("a"), lit("b")], 2)
    region = opt(ks[0], rng.choice([opt(ks[1]), ("template", (("lit", "d"), ("ref", ks[1])), []), opt(ks[1], opt(ks[2]))]))
    path = opt(ks[3]) if rng.random() < 0.7 else opt(ks[3], val(0))
    source = ("switch", opt(ks[4]), [(("j", v1), opt(ks[5])), (("j", v2), opt(ks[6]))], None if rng.random() < 0.6 else val(0))
    parts = [region, path, source]
    rng.shuffle(parts)
    top = rng.choice([("iter", parts), ("list", parts), ("tuple", parts), ("coalesce", parts[:2]), ("dict", [(("j", n), x) for n, x in enumerate(parts)])])
    full = {}
    for k in ks:
        base.set_key(full, k, rng.choice([0, 1, 5, lit("a"), True]))
    base.set_key(full, ks[4], v1)
    base.set_key(full, ks[3], S(("ref", ks[2]), ("lit", "/"), ("lit", "x")) if rng.random() < 0.8 else 1)
    pool = [full]
    for _ in range(3):
        o = base.deep_copy(full)
        for k in rng.sample(ks, rng.randint(1, 3)):
            base.del_key(o, k)
        pool.append(o)
    o = base.deep_copy(full)
    base.set_key(o, ks[4], v2)
    pool.append(o)
    return dict(ftable={}, env={}, exprs=[top, region], ops=[]), pool


def mapping_stream(ctx, n):
    """-> dict(violations, checks, ops, mismatches, kinds): generated graphs of the supported group x dictionaries x mapping kinds (top level only /
    sections too): the C11 oracles on the answers under the mapping, the iterative use with every intermediate dictionary handed over as
    that mapping, and the answers of one live graph under the mapping against the model's answers for the content"""
    rng = ctx.rng
    kinds = mapping_kinds()
    viol, checks, items, used, it_stats = [], 0, [], {}, {}
    for j in range(n):
        if j % 3 == 0:
            scn, pool = directed_mapping_scenario(rng)
        else:
            # (Template NODES - incl. string defaults - cannot be evaluated under a non-dict Mapping on the unchanged library:
            #  confectioner.mix drops the mapping; an evaluated chooser holding one would fail only under the mapping)
            g = gen.Gen(rng, with_presets=False, with_map=False, with_effects=False, with_templates=False, with_failing=(j % 4 == 1))
            exprs = []
            while len(exprs) < 2:
                e = g.expr(3, root=True)
                # (cached(...) fingerprints the option values it depends on: a section that is not a dict cannot be serialised - TypeError)
                if not any(x[0] in ("cached", "template") for x in base.nodes(dict(ftable=g.ftable, env={}, exprs=[e]), e)):
                    exprs.append(e)
            scn = dict(ftable=dict(g.ftable), env={}, exprs=exprs, ops=[])
            pool = g.dict_pool()
        for i in range(len(scn["exprs"])):
            for oi, o in enumerate(pool[:4]):
                picks = [kinds[(j + i + oi + t * 3) % len(kinds)] for t in range(2)]
                plain = {k for k, _d, _c in oracle_c11(scn, i, o, base.quad_cold(scn, i, o), None)}
                for label, f in picks:
                    deep = rng.random() < 0.5
                    checks += 1
                    used[label] = used.get(label, 0) + 1
                    fails, q = kind_failures(scn, i, o, label, deep, plain)
                    for kind, detail in fails:
                        viol.append(mapping_violation(scn, i, o, label, deep, kind, detail, q))
                if oi == 0:
                    label, f = picks[0]
                    ops = [(m, 0, False, False, o2) for o2 in pool[:3] for m in ("explain", "keys", "validate")]
                    _l, objs, w, _b = core.run_impl(base.mini(scn, i, []), want_objects=True)
                    il = [base.ask_obj(w, objs[0], m, as_kind(core.py_json(o2), f, True)) for m, _, _, _, o2 in ops]
                    items.append((il, base.mini(scn, i, ops), cp.dump_scn(dict(scn, ops=[], mapping_kind=label, expr_index=i))))
            # the iterative use: every intermediate dictionary is handed over as the mapping
            full = pool[0]
            if j % 3 == 0 and i == 0 and ok(one(scn, i, full, "validate")):
                label, f = kinds[(j // 3) % len(kinds)]

                def one_kind(scn_, i_, d, m, _f=f):
                    _l2, objs2, w2, _b2 = core.run_impl(base.mini(scn_, i_, []), want_objects=True)
                    return base.ask_obj(w2, objs2[0], m, as_kind(core.py_json(d), _f, True))
                ls = leaves(full)
                starts = [()] + [(p_,) for p_ in ls] + [tuple(rng.sample(ls, len(ls) // 2))]
                for sub in starts:
                    start = sub_dict(full, sub)
                    checks += 1
                    outcome, rounds, detail = iterate(scn, i, full, start, one=one_kind)
                    plain_outcome = iterate(scn, i, full, start)[0]
                    it_stats[outcome] = it_stats.get(outcome, 0) + 1
                    if outcome == "violation" and plain_outcome != "violation":
                        o = eval(detail["dictionary"], {"S": S})
                        viol.append(mapping_violation(scn, i, o, label, True, detail["kind"], dict(detail, sufficient=repr(full), start=repr(start), rounds=rounds),
                                                      kind_quad(scn, i, o, label, True), iterate_from=(repr(full), repr(start))))
    nops, mism = base.live_correspondence(ctx, "Mappings_C11", items, "one live graph asked under a non-dict Mapping vs Model/Eval.v under the content")
    return dict(violations=viol, checks=checks, ops=nops, mismatches=mism, scenarios=n, kinds=used, iterative=it_stats)


def mapping_violation(scn, i, o, label, deep, kind, detail, q, iterate_from=None):
    return dict(desc=f"options given as [{label}]{' (sections too)' if deep else ''}: " + DESC[kind], family="mapping", oracle=kind, options=repr(o),
                detail=detail, finding=None, mapping_kind=label, deep=deep, expr_index=i, expr=repr(scn["exprs"][i])[:600],
                observed={m: res_of(q[m]) for m in ("explain", "keys", "validate")}, iterate_from=iterate_from,
                scenario_repr=cp.dump_scn(dict(scn, ops=[])))


def replay_mapping(ctx, payload):
    scn = cp.load_scn(payload["scenario_repr"])
    i, label, deep = payload["expr_index"], payload["mapping_kind"], payload["deep"]
    o = eval(payload["options"], {"S": S})
    fails, q = kind_failures(scn, i, o, label, deep)
    if payload.get("iterate_from"):
        full, start = (eval(x, {"S": S}) for x in payload["iterate_from"])
        f = dict(mapping_kinds())[label]

        def one_kind(scn_, i_, d, m):
            _l2, objs2, w2, _b2 = core.run_impl(base.mini(scn_, i_, []), want_objects=True)
            return base.ask_obj(w2, objs2[0], m, as_kind(core.py_json(d), f, True))
        outcome, rounds, detail = iterate(scn, i, full, start, one=one_kind)
        if outcome == "violation" and iterate(scn, i, full, start)[0] != "violation":
            fails.append(("iterate", detail))
    return bool(fails), dict(oracle_failures=fails, observed=q, under_a_plain_dict=base.quad_cold(scn, i, o))


# ----------------------------------------------------------------------------- Maps over many option sets
#
# A Map whose iterables yield hundreds of option sets (one long list, a grid of two or three lists) and whose body needs an option
# only for option sets far from the first ones: explain / keys / validate must take every option set into account.  Ordinary
# scenarios of the core language: measured by the C11 oracles (cold) and against the model.

BIG_ID, BIG_ID2, BIG_ID3, BIG_LATE, BIG_LATE2, BIG_LST = 10, 11, 12, 13, 14, 30


def big_map_scenario(rng, quick):
    shape = rng.choice(["list", "list", "grid", "grid3"])
    late, other = opt(K(BIG_LATE)), opt(K(BIG_LATE2), val(0))

    def chooser(key, v, then, otherwise):
        r = rng.random()
        if r < 0.4:
            return ("switch", opt(key), [(("j", v), then)], otherwise)
        if r < 0.7:
            return ("bind", opt(key), [(("j", v), then)], otherwise)
        return ("switch", opt(key), [(("j", v), then), (("j", lit("b")), other)], otherwise)
    if shape == "list":
        n = rng.choice([129, 130, 150, 200, 257] if quick else [129, 150, 257, 400, 700, 1025])
        pos = rng.choice([n - 1, rng.randrange(128, n), rng.randrange(128, n)])
        items = [0] * n if rng.random() < 0.5 else list(range(100, 100 + n))
        items[pos] = 7
        body = chooser(K(BIG_ID), 7, late, val(0))
        src = rng.choice(["option", "option-default", "constant"])
        it = opt(K(BIG_LST)) if src == "option" else opt(K(BIG_LST), val(items)) if src == "option-default" else val(items)
        its = [(K(BIG_ID), it)]
        supplied = {BIG_LST: items} if src == "option" else {}
        short = {BIG_LST: items[:pos]} if src == "option" else None
    else:
        dims = [12, 12] if shape == "grid" else rng.choice([[6, 6, 5], [5, 6, 6]])
        keys = [K(BIG_ID), K(BIG_ID2), K(BIG_ID3)][:len(dims)]
        lists = [list(range(d)) for d in dims]
        inner = late
        for key, d in reversed(list(zip(keys[1:], dims[1:]))):
            inner = chooser(key, d - 1 if rng.random() < 0.7 else d - 2, inner, val(0))
        body = chooser(keys[0], dims[0] - 1, inner, val(1))               # needs the late option in the last row of the grid only
        its, supplied = [], {}
        for t, (key, lst) in enumerate(zip(keys, lists)):
            if t == 0 and rng.random() < 0.6:
                its.append((key, opt(K(BIG_LST))))
                supplied[BIG_LST] = lst
            else:
                its.append((key, val(lst)))
        short = {BIG_LST: lists[0][:-1]} if BIG_LST in supplied else None
    m = ("map", body, its)
    exprs = [m if rng.random() < 0.5 else ("tolist", m)]
    with_late = dict(supplied, **{})
    with_late[BIG_LATE] = rng.choice([1, lit("a"), None])
    pool = [dict(supplied), with_late]
    if short is not None:
        pool.append(short)
    if supplied:
        pool.append({BIG_LATE: 1})
    return dict(ftable={}, env={}, exprs=exprs, ops=[]), pool


def big_map_stream(ctx, n):
    """-> (raw oracle failures for the shared attribution, checks, histories for the correspondence)"""
    raw, checks, hist, sizes = [], 0, [], {}
    for _ in range(n):
        scn, pool = big_map_scenario(ctx.rng, ctx.quick)
        for o in pool:
            q = base.quad_cold(scn, 0, o)
            checks += 1
            for kind, detail, cands in oracle_c11(scn, 0, o, q, None):
                raw.append((scn, 0, o, None, kind, dict(detail, family="a Map over more than 128 option sets"), cands))
        hist.append(dict(scn, ops=[(m, 0, False, False, o) for o in pool for m in ("explain", "keys", "validate")]))
    return raw, checks, hist


# ----------------------------------------------------------------------------- witnesses (C11 shapes)

A, B, P, SEC, X = 10, 11, 13, 20, 21
WIT = {
    "D1": dict(what="Option('A') on {'A': ['{B}']}: explain() == {'A'}, nothing listed is absent, yet validate() fails for the missing option B (not listed): templated strings inside containers are invisible to explain",
               scn=dict(ftable={}, env={}, exprs=[opt(K(A))], ops=[]), o={A: [S(("ref", K(B)))]}, kind="complete", first=None),
    "D4": dict(what="Option('A', domain=Option('P')) on {'A': 1}: explain() == {'A'}, nothing listed is absent, yet validate() fails for the missing option P read by the domain expression (not listed)",
               scn=dict(ftable={}, env={}, exprs=[opt(K(A), None, opt(K(P)))], ops=[]), o={A: 1}, kind="listed", first=None),
    "D6": dict(what="Option('S.X', default=1) on {'S': 5}: explain() fails with a raw TypeError (scalar parent), not InsufficientInformationError",
               scn=dict(ftable={}, env={}, exprs=[opt(K(SEC, X), val(1))], ops=[]), o={SEC: 5}, kind="insuff", first=None),
    "D13": dict(what="Option('A') on {'A': '{B} ', 'B': {'X': 1}}: explain() == {'A', 'B'} (nothing absent) yet validate() fails with KeyNotFoundError(\"'X': 1\"): the text substituted for B is scanned again for references",
                scn=dict(ftable={}, env={}, exprs=[opt(K(A))], ops=[]), o={A: S(("ref", K(B)), ("lit", " ")), B: {X: 1}}, kind="listed", first=None),
    "AO1": dict(what="AllOptions on {'A': '{B}'}: explain() == {'A'} (nothing listed is absent) yet validate() fails for the missing option B, which is not listed",
                scn=dict(ftable={}, env={}, exprs=[("alloptions",)], ops=[]), o={A: S(("ref", K(B)))}, kind="listed", first=None),
    "D9": dict(what="@dataset(effects=[step(prefix=Option('P'))]) e(a=Option('A')): after e({'A': 1, 'P': 1}), explain({'A': 1}) lists the absent P yet validate({'A': 1}) passes (the stored value hides the effect from validate)",
               scn=dict(ftable={100: ("tag",), 101: ("tag",)},
                        env={1: dict(fid=100, kwargs=[opt(K(A))], effects=[("pstep", 101, [opt(K(P))])])},
                        exprs=[("dataset", 1)], ops=[]), o={A: 1}, kind="sound", first={A: 1, P: 1}),
}


def run(ctx):
    n = 1000 if ctx.quick else 10000
    EXCLUDED.clear()
    corpus = corpus_for(PID)
    cases = [(dict(s, ops=[]), ([op[4] for op in s["ops"]][:3] or [{}])) for _, s in corpus] + base.generate(ctx, n, failing_every=4)
    hist = [s for _, s in corpus] + [base.history(ctx, scn, pool) for scn, pool in cases[len(corpus):]]
    impls, models, mism, stats = cp.correspondence(ctx, hist, "Cases_C11")
    it_raw, it_stats = run_iterative(ctx, cases, 60 if ctx.quick else 600)
    late_raw, late_checks = late_registration(ctx, 40 if ctx.quick else 400)
    nsp = namespace_stream(ctx, 50 if ctx.quick else 500)
    mp = mapping_stream(ctx, 45 if ctx.quick else 450)
    big_raw, big_checks, big_hist = big_map_stream(ctx, 10 if ctx.quick else 100)
    _bi, _bm, big_mism, big_stats = cp.correspondence(ctx, big_hist, "Cases_C11_bigmaps", shard=2)
    cl = base.class_stream(ctx, PID, 60 if ctx.quick else 600, oracle_c11, DESC)
    hs = base.history_stream(ctx, PID, 60 if ctx.quick else 600, oracle_c11, DESC, ("explain", "keys", "validate"))
    violations, checks, distinct, dist, tagged = base.run_oracles(ctx, PID, cases, oracle_c11, DESC, 3 if ctx.quick else 4,
                                                                  extra=it_raw + late_raw + nsp["raw"] + cl["raw"] + big_raw)
    violations += nsp["violations"][:25] + cl["violations"][:25] + hs["violations"][:25] + mp["violations"][:25]
    mism = mism + nsp["mismatches"] + cl["mismatches"] + hs["mismatches"] + mp["mismatches"] + big_mism
    known = [dict(id=fid, still_fails=base.witness_fails(WIT[fid], oracle_c11), what=WIT[fid]["what"]) for fid in KNOWN]
    sample = []
    for scn, pool in cases[-3:]:
        q = base.quad_cold(scn, 0, pool[0])
        sample.append(dict(expr=repr(scn["exprs"][0])[:300], options=repr(pool[0])[:160], observed={m: q[m][:80] for m in METHODS}))
    return {
        "evaluations": stats["ops"] + 4 * checks + 2 * it_stats["sub_dictionaries"] + 6 * late_checks + 4 * nsp["checks"] + nsp["ops"]
                       + 2 * nsp["iterative"]["sub_dictionaries"] + 4 * cl["checks"] + cl["ops"] + 3 * hs["checks"] + hs["ops"]
                       + 3 * mp["checks"] + mp["ops"] + 4 * big_checks + big_stats["ops"],
        "distinct_nontrivial": len(distinct),
        "rule": "C01 profile (see C10); for every (expression, dictionary of an adversarially perturbed pool, cold / warm / warm-other graph): "
                "explain vs keys vs validate. Iterative use: for sufficient dictionaries with 1-6 leaf keys EVERY sub-dictionary (exhaustive) is "
                "completed by adding what explain lists until validate passes. Late registration: an implementation is registered on a dataset below the "
                "asked one between two rounds of questions for the same dictionary. Option namespaces (@Option.namespace bare / named / nested implicit, members: "
                "annotated, plain defaults, evaluatable defaults, Option(KEY), Option.auto() with defaults and >> transformations): the namespace, nested "
                "namespaces and members reached by attribute access, under the sufficient dictionary and its neighbours, the iterative use from every "
                "sub-dictionary, and the namespace against the model on the collection of its effective options. Dataset classes (see C10). Histories of "
                "public mutators on a dataset / its parent / a sibling / a dependency with every object asked (explain() without argument, {} and others) "
                "after every step; after register/overload-only histories the answers are compared with the model on the graph declared up front. "
                "Options handed over as a Mapping of another kind (dict subclass, OrderedDict, defaultdict, ChainMap of one / two layers, MappingProxyType, UserDict, a user "
                "Mapping; top level only or sections too) on graphs without WithOptions / Map / datasets: the C11 oracles on the answers under the mapping, the "
                "iterative use through the mapping, one live graph under the mapping against the model under the content. Maps over 129-257 option sets (one long "
                "list, 12x12 and 6x6x5 grids) whose body needs an option only for late option sets, against the oracles and the model. Non-trivial = the four methods do not all succeed nor all fail; "
                "distinct by hash of (expression, dictionary, first dictionary).",
        "samples": sample,
        "traces_validated_against_impl": stats["ops"] + nsp["ops"] + cl["ops"] + hs["ops"] + mp["ops"] + big_stats["ops"],
        "correspondence_mismatches": mism[:5],
        "violations": violations,
        "known": known,
        "distribution": dict(stats, quadruples=checks, outcome_patterns_validate_keys_explain_evaluate=dist, oracle_failures_tagged=tagged,
                             scenarios=len(cases), iterative=it_stats, late_registration_histories=late_checks, excluded=dict(EXCLUDED),
                             namespaces={k: v for k, v in nsp.items() if k not in ("raw", "violations", "mismatches")},
                             mapping_kinds={k: v for k, v in mp.items() if k not in ("violations", "mismatches")},
                             big_maps=dict(scenarios=len(big_hist), quadruples=big_checks, ops_vs_model=big_stats["ops"]),
                             dataset_classes=dict(scenarios=cl["scenarios"], quadruples=cl["checks"], ops_vs_model=cl["ops"], patterns=cl["patterns"]),
                             mutator_histories=dict(histories=hs["histories"], moments_asked=hs["checks"], ops_vs_model=hs["ops"], mutators=hs["mutators"])),
        "exhaustive": False,
        "assumptions": ["'absent from o' is decided on the python dictionary by this module's own walk (dict membership, list index in range)",
                        "an exception raised directly by a partial bind function / case predicate of the harness (user code, not an EvaluationError) leaving explain() is the user's failure, not counted",
                        "the theorems are about the cache-free reference instance; cold/warm caches are covered by this run only (PARTIAL)"],
        "trusted_base": ["chooser positions are recomputed from the scenario syntax tree (props/c10.py), independently of the model",
                         "what an option namespace stands for (annotated members first, declaration order, nested members in place, Option.auto key = "
                         "<namespace>.<attribute>, >> = apply) and what a dataset class stands for are computed by the harness from the scenario; the "
                         "model runs the collection of those options / members (it has no namespaces or classes)"],
    }


def replay(ctx, payload):
    if payload.get("family") == "namespace":
        return replay_namespace(ctx, payload)
    if payload.get("family") == "mapping":
        return replay_mapping(ctx, payload)
    if payload.get("family") == "class":
        return base.replay_class(ctx, payload, oracle_c11)
    if payload.get("family") == "history":
        return base.replay_history(ctx, payload, oracle_c11, ("explain", "keys", "validate"))
    scn = cp.load_scn(payload["scenario_repr"])
    i = payload["expr_index"]
    o = eval(payload["options"], {"S": S})
    first = None if payload.get("first") is None else eval(payload["first"], {"S": S})
    late = (payload.get("detail") or {}).get("late")
    if late:
        _, q = late_history(eval(late, {"S": S}), o)
        fails = [(k, d) for k, d, _ in oracle_c11(scn, i, o, q, None) if k != "bodies"]
        return bool(fails), dict(oracle_failures=fails, observed=q)
    q = quad(scn, i, o, first)
    agrees, dirty = base.model_info(ctx, "Replay_C11", [(scn, i, o, first)])[0]
    fails, known = base.replay_verdict(oracle_c11(scn, i, o, q, first), agrees)
    if payload.get("oracle") == "iterate":
        det = payload["detail"]
        outcome, rounds, detail = iterate(scn, i, eval(det["sufficient"], {"S": S}), eval(det["start"], {"S": S}))
        if outcome == "violation":
            fails.append(("iterate", detail))
    return bool(fails) or not agrees, dict(oracle_failures=fails, recorded_findings_on_this_input=known, observed=q, model_agrees=agrees)
