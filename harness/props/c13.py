"""C13 — pipelines: correspondence of Model/Pipeline.v with labrea.pipeline, the property's own
oracle on the implementation, and the helper-step enumeration (labrea.functions)."""
import itertools

import lib

PID = "C13"
COQ_TARGETS = ["Model/PipelineRun.vo"]
BAD = 999


def _labrea():
    import labrea
    from labrea import Option
    from labrea.pipeline import Identity, Pipeline, PipelineStep, pipeline_step
    from labrea.application import PartialApplication
    from labrea.types import Evaluatable, Value
    return dict(Option=Option, Identity=Identity, Pipeline=Pipeline, PipelineStep=PipelineStep,
                pipeline_step=pipeline_step, Value=Value, PartialApplication=PartialApplication, Evaluatable=Evaluatable)


# ----------------------------------------------------------------------------- steps of every KIND of Python callable
#
# "Step parameters ... are evaluated from the same options at evaluation time and are reported by keys() and
# explain()": for every kind of callable the step function may legitimately be (def, lambda, an instance with
# __call__, a bound method, a classmethod / staticmethod, a class, a functools.partial object over any of these)
# and every kind of parameter that may carry the option (positional-or-keyword, keyword-only after a bare *, next
# to constant parameters on either side, behind a positional-only input `x, /`, keyword-only because a
# functools.partial bound an earlier parameter by keyword, bound by a functools.partial itself, or supplied through
# PartialApplication.lift(f, y=Option(...)) for a parameter without a default, with or without *args / **kwargs
# catch-alls).  Positional-only PARAMETERS (`def f(x, y=Option('K'), /)`) and *args / **kwargs in a @pipeline_step
# are not supported by labrea itself (TypeError / ValueError on the unchanged library) and stay outside.
# In the Coq model every one of them is the same thing: SParam key default.

PARAM_DESCS = ("param", "kparam", "sub")
CALLABLE_KINDS = ("def", "lambda", "instance", "bound", "classmethod", "staticmethod", "class")
CONST = 7
# parameter kind -> (parameter list, call, how the final function is obtained from the callable `f`)
PARAM_KINDS = {
    "pk": ("x, y=OPT", "body(x, y)", None),
    "kwonly": ("x, *, y=OPT", "body(x, y)", None),
    "posx": ("x, /, y=OPT", "body(x, y)", None),
    "posx_kwonly": ("x, /, *, y=OPT", "body(x, y)", None),
    "const_then_kwonly": ("x, c=CONST, *, y=OPT", "body(x, y, c)", None),
    "kwonly_then_const": ("x, *, y=OPT, c=CONST", "body(x, y, c)", None),
    "pk_then_kwonly_const": ("x, y=OPT, *, c=CONST", "body(x, y, c)", None),
    "partial_kw": ("x, c=0, y=OPT", "body(x, y, c)", "functools.partial(f, c=CONST)"),        # y becomes keyword-only
    "partial_kw_after": ("x, y=OPT, c=0", "body(x, y, c)", "functools.partial(f, c=CONST)"),  # y stays positional-or-keyword
    "partial_pos": ("c, x, y=OPT", "body(x, y, c)", "functools.partial(f, CONST)"),
    "partial_binds_option": ("x, y", "body(x, y)", "functools.partial(f, y=OPT)"),
    "partial_of_partial": ("c, x, d=0, y=OPT", "body(x, y, c if d == CONST else None)",
                           "functools.partial(functools.partial(f, CONST), d=CONST)"),
    # no default of its own: the option is supplied through PartialApplication.lift(f, y=...); the result is an
    # Evaluatable of a callable, composed with `pipeline + evaluatable`
    "lift_supplied_kwonly": ("x, *, y", "body(x, y)", "lift"),
    "lift_supplied_pk": ("x, y", "body(x, y)", "lift"),
    "lift_supplied_varargs": ("x, *rest, y", "body(x, y, CONST if rest == () else None)", "lift"),
    "lift_supplied_varkw": ("x, *, y, **kw", "body(x, y, CONST if kw == {} else None)", "lift"),
    "lift_own_default_varargs": ("x, *rest, y=OPT", "body(x, y, CONST if rest == () else None)", "lift_plain"),
}
RAW_PARAM_KINDS = tuple(k for k, v in PARAM_KINDS.items() if v[2] in ("lift", "lift_plain"))
SOURCES = {
    "def": "def f({p}):\n    return {c}\n",
    "lambda": "f = lambda {p}: {c}\n",
    "instance": "class C:\n    def __call__(self, {p}):\n        return {c}\nf = C()\n",
    "bound": "class C:\n    def m(self, {p}):\n        return {c}\nf = C().m\n",
    "classmethod": "class C:\n    @classmethod\n    def m(cls, {p}):\n        return {c}\nf = C.m\n",
    "staticmethod": "class C:\n    @staticmethod\n    def m({p}):\n        return {c}\nf = C.m\n",
    "class": "class f:\n    def __new__(cls, {p}):\n        return {c}\n",
}


def kind_step(L, a, key, default, ckind, pkind):
    """(object, raw?) - a step tagged `a` with ONE option parameter Option(key[, default]), whose function is a Python
    callable of kind `ckind` declaring the parameter in the way `pkind`; raw: an Evaluatable of a callable (to be
    composed with `pipeline + evaluatable`), otherwise a @pipeline_step"""
    import functools
    opt = L["Option"](key) if default is None else L["Option"](key, default)

    def body(x, y, c=CONST):
        if c != CONST:
            raise AssertionError("a constant / bound parameter of the step function did not arrive")
        if y == BAD:
            raise RuntimeError("bad parameter")
        return [(a, y)] + x
    params, call, wrap = PARAM_KINDS[pkind]
    ns = dict(body=body, OPT=opt, CONST=CONST, functools=functools)
    exec(SOURCES[ckind].format(p=params, c=call), ns)
    f = ns["f"]
    if wrap == "lift":
        return L["PartialApplication"].lift(f, y=opt), True
    if wrap == "lift_plain":
        return L["PartialApplication"].lift(f), True
    if wrap is not None:
        f = eval(wrap, dict(ns, f=f))
    return L["pipeline_step"](f), False


# ----------------------------------------------------------------------------- steps that are user SUBCLASSES of PipelineStep
#
# labrea's documented extension point ("allows for third-party extensions to be created that can be used within
# the labrea framework").  The step wraps a third-party Evaluatable that is careless in some aspects (its function
# tags the value wrongly / it reports no keys / explains nothing / validates anything); the subclass overrides
# exactly those methods of the Evaluatable protocol and does them right.  On its own the step is a step with one
# option parameter (the model's SParam); composed into a pipeline (either side, any bracketing, e >> p) it must
# still be: (p + q).transform(x, o) = q.transform(p.transform(x, o), o), keys / explain = the union over the steps.
OVERRIDABLE = ("evaluate", "keys", "explain", "validate")


def subclass_step(L, a, key, default, ov):
    Option, PipelineStep, Evaluatable = L["Option"], L["PipelineStep"], L["Evaluatable"]
    opt = Option(key) if default is None else Option(key, default)

    def body(tag, y, x):
        if y == BAD:
            raise RuntimeError("bad parameter")
        return [(tag, y)] + x

    class Careless(Evaluatable):
        def evaluate(self, options):
            y = opt.evaluate(options)
            tag = -a if "evaluate" in ov else a
            return lambda x: body(tag, y, x)

        def validate(self, options):
            if "validate" not in ov:
                opt.validate(options)

        def keys(self, options):
            return set() if "keys" in ov else opt.keys(options)

        def explain(self, options=None):
            return set() if "explain" in ov else opt.explain(options)

        def __repr__(self):
            return f"<Careless {a}>"

    methods = {}
    if ov == ("evaluate",):
        # overrides ONE method, wrapping the function the inherited machinery evaluates
        def evaluate(self, options):
            f = self.step.evaluate(options)
            return lambda x: (lambda r: [(a, r[0][1])] + r[1:])(f(x))
        methods["evaluate"] = evaluate
    elif "evaluate" in ov:
        # reads its parameter from the options itself
        def evaluate(self, options):
            y = opt.evaluate(options)
            return lambda x: body(a, y, x)
        methods["evaluate"] = evaluate
    if "validate" in ov:
        methods["validate"] = lambda self, options: opt.validate(options)
    if "keys" in ov:
        methods["keys"] = lambda self, options: opt.keys(options)
    if "explain" in ov:
        methods["explain"] = lambda self, options=None: opt.explain(options)
    Sub = type(f"UserStep{a}", (PipelineStep,), methods)
    return Sub(Careless(), f"user{a}")


class World:
    """Step objects for one scenario: atoms 1.. for steps, 100+ for option keys."""

    def __init__(self, L, descs):
        self.L = L
        self.descs = descs  # atom -> ('plain',) | ('param', keyatom, default|None) | ('raise',) | ('callable',)|('rcallable',)
        #                   | ('kparam', keyatom, default|None, callable kind, parameter kind)   (see CALLABLE_KINDS / PARAM_KINDS)
        #                   | ('sub', keyatom, default|None, (overridden method names))        (a user subclass of PipelineStep)
        self.objs = {}
        self.by_id = {}
        self.by_fn = {}
        self.by_ev = {}
        for a, d in descs.items():
            self.objs[a] = self._mk(a, d)

    def _mk(self, a, d):
        L = self.L
        kind = d[0]
        if kind == "param":
            key = f"K{d[1]}"
            if d[2] is None:
                def body(x, y=L["Option"](key)):
                    if y == BAD:
                        raise RuntimeError("bad parameter")
                    return [(a, y)] + x
            else:
                def body(x, y=L["Option"](key, d[2])):
                    if y == BAD:
                        raise RuntimeError("bad parameter")
                    return [(a, y)] + x
            s = L["pipeline_step"](body)
            self.by_id[id(s)] = a
            return s
        if kind == "plain":
            def body(x):
                return [(a, None)] + x
            s = L["pipeline_step"](body)
            self.by_id[id(s)] = a
            return s
        if kind == "raise":
            def body(x):
                raise ValueError("step raises")
            s = L["pipeline_step"](body)
            self.by_id[id(s)] = a
            return s
        if kind == "callable":
            def fn(x):
                return [(a, None)] + x
            self.by_fn[id(fn)] = a
            return fn
        if kind == "rcallable":
            def fn(x):
                raise KeyError("callable raises")
            self.by_fn[id(fn)] = a
            return fn
        if kind == "kparam":
            obj, raw = kind_step(L, a, f"K{d[1]}", d[2], d[3], d[4])
            if raw:
                self.by_ev[id(obj)] = a
            else:
                self.by_id[id(obj)] = a
            return obj
        if kind == "sub":
            s = subclass_step(L, a, f"K{d[1]}", d[2], tuple(d[3]))
            self.by_id[id(s)] = a
            return s
        raise AssertionError(kind)

    def ident(self, step):
        L = self.L
        if step == L["Identity"]:
            return 0
        if id(step) in self.by_id:
            return self.by_id[id(step)]
        inner = getattr(step, "step", None)
        if isinstance(inner, L["Value"]) and id(inner.value) in self.by_fn:
            return self.by_fn[id(inner.value)]
        if id(inner) in self.by_ev:
            return self.by_ev[id(inner)]
        return -1

    # --- building
    def build(self, t):
        L = self.L
        k = t[0]
        if k == "step":
            return self.objs[t[1]]
        if k == "identity":
            return L["Identity"]
        if k == "empty":
            return L["Pipeline"]()
        if k == "single":
            return L["Pipeline"](self.objs[t[1]])
        if k == "add":
            return self.build(t[1]) + self.build(t[2])
        if k == "iadd":          # the augmented spelling: p = <left>; p += <right>
            p = self.build(t[1])
            p += self.build(t[2])
            return p
        raise AssertionError(t)

    def is_raw(self, t):
        if t[0] != "step":
            return False
        d = self.descs[t[1]]
        return d[0] in ("callable", "rcallable") or (d[0] == "kparam" and d[4] in RAW_PARAM_KINDS)

    def norm(self, t):
        if t[0] not in ("add", "iadd"):
            return t
        l, r = self.norm(t[1]), self.norm(t[2])
        if self.is_raw(l):
            l = ("add", ("empty",), l)
        return (t[0], l, r)

    def as_pipeline(self, obj):
        L = self.L
        if isinstance(obj, L["Pipeline"]):
            return obj
        if isinstance(obj, L["PipelineStep"]):
            return L["Pipeline"](obj)
        return L["Pipeline"]() + obj

    # --- Coq rendering
    def coq_tbl(self):
        out = []
        for a, d in sorted(self.descs.items()):
            if d[0] in PARAM_DESCS:     # whatever kind of Python callable / class the step is: a step with one option parameter
                dflt = "None" if d[2] is None else f"(Some {d[2]}%N)"
                out.append(f"({a}%N, SParam {100 + d[1]}%N {dflt})")
            elif d[0] in ("raise", "rcallable"):
                out.append(f"({a}%N, SRaise)")
            else:
                out.append(f"({a}%N, SPlain)")
        return "[" + "; ".join(out) + "]"

    def coq_cexpr(self, t):
        k = t[0]
        if k == "step":
            return f"(CStep {t[1]}%N)"
        if k == "identity":
            return "(CStep 0%N)"
        if k == "empty":
            return "(CPipe empty_pipe)"
        if k == "single":
            return f"(CPipe (single {t[1]}%N))"
        # ("iadd", l, r) is `p = l; p += r`: the language defines it as p = p + r, the model's CAdd
        return f"(CAdd {self.coq_cexpr(t[1])} {self.coq_cexpr(t[2])})"


def coq_opts(o):
    return "[" + "; ".join(f"({100 + k}%N, {v}%N)" for k, v in sorted(o.items())) + "]"


def py_opts(o):
    return {f"K{k}": v for k, v in o.items()}


def show_opt(x, f):
    return "none" if x is None else f"some({f(x)})"


def show_v(v):
    return "[" + ",".join(f"{s}:{show_opt(p, str)}" for s, p in v) + "]"


def show_keys(ks):
    return show_opt(ks, lambda l: "[" + ",".join(str(100 + int(k[1:])) for k in sorted(l, key=lambda k: int(k[1:]))) + "]")


def attempt(f):
    try:
        return f()
    except Exception:
        return None


def observe_impl(w, p, o):
    po = py_opts(o)
    it = [w.ident(s) for s in p]
    tr = attempt(lambda: p.transform([], po))
    ks = attempt(lambda: p.keys(po))
    ex = attempt(lambda: p.explain(po))
    try:
        p.validate(po)
        va = True
    except Exception:
        va = False
    line = ("[" + ",".join(map(str, it)) + "]|" + show_opt(tr, show_v) + "|" + show_keys(ks) + "|"
            + show_keys(ex) + "|" + ("T" if va else "F"))
    return line, dict(iter=it, transform=tr, keys=ks, explain=ex, valid=va)


def bracketings(leaves):
    if len(leaves) == 1:
        return [leaves[0]]
    out = []
    for i in range(1, len(leaves)):
        for l in bracketings(leaves[:i]):
            for r in bracketings(leaves[i:]):
                out.append(("add", l, r))
    return out


def gen_world(rng, L):
    n = rng.randint(1, 6)
    descs = {}
    leaves = []
    for i in range(1, n + 1):
        r = rng.random()
        if r < 0.40:
            descs[i] = ("param", rng.randint(1, 3), rng.choice([None, None, 5, 6]))
            leaves.append(rng.choice([("step", i), ("step", i), ("single", i)]))
        elif r < 0.55:
            descs[i] = ("plain",)
            leaves.append(rng.choice([("step", i), ("single", i)]))
        elif r < 0.75:
            descs[i] = ("callable",)
            leaves.append(("step", i))
        elif r < 0.80:
            descs[i] = rng.choice([("raise",), ("rcallable",)])
            leaves.append(("step", i))
        elif r < 0.93:
            leaves.append(("empty",))
        else:
            leaves.append(("identity",))
    return World(L, descs), leaves


def gen_options(rng):
    outs = [{}]
    full = {k: rng.choice([1, 2, 3]) for k in (1, 2, 3)}
    outs.append(full)
    o = {k: v for k, v in full.items() if rng.random() < 0.6}
    outs.append(o)
    if rng.random() < 0.3:
        o2 = dict(full)
        o2[rng.randint(1, 3)] = BAD
        outs.append(o2)
    return outs


def oracle(w, leaves, trees, built, opts_list, viol):
    """The property's own statement, evaluated on the implementation only."""
    L = w.L
    has_identity = any(l[0] == "identity" for l in leaves)
    checks = 0
    pipes = [w.as_pipeline(b) for b in built]
    for o in opts_list:
        po = py_opts(o)
        base = None
        for t, p in zip(trees, pipes):
            it = [w.ident(s) for s in p]
            tr = attempt(lambda: p.transform([], po))
            # iteration order is application order: fold the iterated steps
            acc = []
            try:
                fs = [s.evaluate(po) for s in p]
                for f in fs:
                    acc = f(acc)
            except Exception:
                acc = None
            checks += 1
            if acc != tr:
                viol.append(dict(desc="transform differs from folding the iterated steps",
                                 leaves=leaves, tree=t, options=o, got=tr, fold=acc))
            # step parameters are reported by keys() and explain(): the pipeline reports what its steps (the objects it
            # yields when iterated, asked themselves) report
            for meth in ("keys", "explain"):
                per = [attempt(lambda: getattr(s, meth)(po)) for s in p]
                want = None if any(x is None for x in per) else set().union(*per)
                got = attempt(lambda: getattr(p, meth)(po))
                checks += 1
                if got != want:
                    viol.append(dict(desc=f"{meth}() of a pipeline is not the union of {meth}() of the steps it yields when iterated",
                                     leaves=leaves, tree=t, options=o, got=None if got is None else sorted(got),
                                     steps=None if want is None else sorted(want)))
            # the same options dictionary OBJECT, updated in place between two transform() calls on the same
            # pipeline object (a parameter sweep): parameters are read from the options at each call
            if len(opts_list) > 1:
                shared = {}
                for o2 in (o, opts_list[(opts_list.index(o) + 1) % len(opts_list)], o):
                    shared.clear()
                    shared.update(py_opts(o2))
                    checks += 1
                    a = attempt(lambda: p.transform([], shared))
                    b = attempt(lambda: w.as_pipeline(w.build(t)).transform([], dict(shared)))
                    if a != b:
                        viol.append(dict(desc="transform() on a pipeline called again with the same options dictionary object, updated in place, "
                                              "does not read its parameters from the updated options", leaves=leaves, tree=t, options=o2,
                                         got=a, fresh=b))
                        break
            # the evaluated pipeline is an ordinary function: every call applies all steps, also when it
            # is called again or mapped over several elements by a higher-order helper
            if tr is not None:
                import labrea.functions as F
                checks += 2
                again = attempt(lambda: (lambda fn: [fn([]), fn([]), fn([])])(p.evaluate(po)))
                if again != [tr, tr, tr]:
                    viol.append(dict(desc="the function obtained by evaluating a pipeline gives different results when called again",
                                     leaves=leaves, tree=t, options=o, first=tr, calls=again))
                mapped = attempt(lambda: list(F.map(p).transform([[], [], []], po)))
                if mapped != [tr, tr, tr]:
                    viol.append(dict(desc="F.map(pipeline) does not apply the whole pipeline to every element",
                                     leaves=leaves, tree=t, options=o, one=tr, mapped=mapped))
            cur = (None if has_identity else it, tr, attempt(lambda: p.keys(po)), attempt(lambda: p.explain(po)))
            if base is None:
                base = (cur, t)
            else:
                checks += 1
                if cur != base[0]:
                    viol.append(dict(desc="two bracketings of the same sequence differ (associativity)",
                                     leaves=leaves, tree_a=base[1], tree_b=t, options=o,
                                     a=base[0], b=cur))
            # (p + q).transform(x) == q.transform(p.transform(x))
            if t[0] == "add":
                # p and q as they are (a step is a Transformation itself); only a bare callable needs a pipeline around it
                lp, rp = [x if hasattr(x, "transform") else w.as_pipeline(x) for x in (w.build(t[1]), w.build(t[2]))]
                mid = attempt(lambda: lp.transform([], po))
                two = None if mid is None else attempt(lambda: rp.transform(mid, po))
                checks += 1
                if two != tr:
                    viol.append(dict(desc="(p+q).transform(x,o) != q.transform(p.transform(x,o),o)",
                                     leaves=leaves, tree=t, options=o, whole=tr, split=two))
                kl, kr = attempt(lambda: lp.keys(po)), attempt(lambda: rp.keys(po))
                ku = None if kl is None or kr is None else kl | kr
                checks += 1
                if ku != attempt(lambda: p.keys(po)):
                    viol.append(dict(desc="keys(p+q) != keys(p) | keys(q)", leaves=leaves, tree=t, options=o))
                el, er = attempt(lambda: lp.explain(po)), attempt(lambda: rp.explain(po))
                eu = None if el is None or er is None else el | er
                checks += 1
                if eu != attempt(lambda: p.explain(po)):
                    viol.append(dict(desc="explain(p+q) != explain(p) | explain(q)", leaves=leaves, tree=t, options=o))
            # identity laws
            e = L["Pipeline"]()
            for q, nm in ((p + e, "p + empty"), (e + p, "empty + p")):
                checks += 1
                if attempt(lambda: q.transform([], po)) != tr or (not has_identity and [w.ident(s) for s in q] != it):
                    viol.append(dict(desc=f"{nm} differs from p", leaves=leaves, tree=t, options=o))
            # e >> p evaluates to p.transform(e(o), o); parameters come from the same options
            src = L["Option"]("SRC", default=[])
            for srcv in ([], [(77, None)]):
                po2 = dict(po)
                po2["SRC"] = srcv
                a = attempt(lambda: (src >> p).evaluate(po2))
                b = attempt(lambda: p.transform(srcv, po2))
                checks += 1
                if a != b:
                    viol.append(dict(desc="(e >> p)(o) != p.transform(e(o), o)", leaves=leaves, tree=t, options=o, a=a, b=b))
            if tr is not None:
                for s, pv in tr:
                    d = w.descs.get(s)
                    if d and d[0] in PARAM_DESCS:
                        want = o.get(d[1], d[2])
                        checks += 1
                        if pv != want:
                            viol.append(dict(desc="step parameter is not the option's value under the evaluation options",
                                             leaves=leaves, tree=t, options=o, step=s, got=pv, want=want))
    return checks


# ----------------------------------------------------------------------------- helpers table

def helper_enumeration(viol):
    """labrea.functions helpers vs. the documented operand order, over a symbolic probe universe.
    Finite (helper x argument form); returns (cases, samples)."""
    import labrea.functions as F
    from labrea import Option

    class P:
        """free-algebra probe: records every binary operation with operand order"""
        def __init__(self, t): self.t = t
        def _b(self, op, o, flip=False):
            ot = o.t if isinstance(o, P) else ("c", o)
            return P((op, ot, self.t) if flip else (op, self.t, ot))
        def __add__(self, o): return self._b("add", o)
        def __radd__(self, o): return self._b("add", o, True)
        def __sub__(self, o): return self._b("sub", o)
        def __rsub__(self, o): return self._b("sub", o, True)
        def __mul__(self, o): return self._b("mul", o)
        def __rmul__(self, o): return self._b("mul", o, True)
        def __truediv__(self, o): return self._b("div", o)
        def __rtruediv__(self, o): return self._b("div", o, True)
        def __mod__(self, o): return self._b("mod", o)
        def __rmod__(self, o): return self._b("mod", o, True)
        def __neg__(self): return P(("neg", self.t))
        def __eq__(self, o): return isinstance(o, P) and self.t == o.t
        def __hash__(self): return hash(self.t)
        def __repr__(self): return f"P{self.t!r}"

    X, A = P("input"), P("arg")
    xi, ai = ("input"), ("arg")
    # (name, factory taking the argument, input value, argument value, expected python result)
    table = [
        ("add", F.add, X, A, P(("add", xi, ai))),
        ("subtract", F.subtract, X, A, P(("sub", xi, ai))),
        ("multiply", F.multiply, X, A, P(("mul", xi, ai))),
        ("left_multiply", F.left_multiply, X, A, P(("mul", ai, xi))),
        ("divide_by", F.divide_by, X, A, P(("div", xi, ai))),
        ("divide_into", F.divide_into, X, A, P(("div", ai, xi))),
        ("modulo", F.modulo, X, A, P(("mod", xi, ai))),
        ("add/int", F.add, 7, 3, 10), ("subtract/int", F.subtract, 7, 3, 4),
        ("multiply/int", F.multiply, 7, 3, 21), ("left_multiply/seq", F.left_multiply, [1, 2], 2, [1, 2, 1, 2]),
        ("divide_by/int", F.divide_by, 6, 3, 2.0), ("divide_into/int", F.divide_into, 3, 6, 2.0),
        ("modulo/int", F.modulo, 7, 3, 1),
        ("concat", F.concat, [1, 2], [3], [1, 2, 3]),
        ("append", F.append, [1, 2], 3, [1, 2, 3]),
        ("intersect", F.intersect, {1, 2, 3}, {2, 3, 4}, {2, 3}),
        ("union", F.union, {1, 2}, {2, 3}, {1, 2, 3}),
        ("difference", F.difference, {1, 2, 3}, {2}, {1, 3}),
        ("symmetric_difference", F.symmetric_difference, {1, 2, 3}, {2, 4}, {1, 3, 4}),
        ("get", F.get, {"a": 1, "b": 2}, "b", 2),
        ("get/list", F.get, [5, 6, 7], 1, 6),
        ("get_from", F.get_from, "b", {"a": 1, "b": 2}, 2),
        ("merge", F.merge, {"a": 1, "b": 2}, {"b": 3, "c": 4}, {"a": 1, "b": 3, "c": 4}),
        ("eq", F.eq, 3, 3, True), ("eq/ne", F.eq, 3, 4, False), ("ne", F.ne, 3, 4, True), ("ne/eq", F.ne, 3, 3, False),
        ("gt", F.gt, 7, 3, True), ("gt/f", F.gt, 3, 7, False), ("gt/e", F.gt, 3, 3, False),
        ("ge", F.ge, 7, 3, True), ("ge/f", F.ge, 3, 7, False), ("ge/e", F.ge, 3, 3, True),
        ("lt", F.lt, 3, 7, True), ("lt/f", F.lt, 7, 3, False), ("lt/e", F.lt, 3, 3, False),
        ("le", F.le, 3, 7, True), ("le/f", F.le, 7, 3, False), ("le/e", F.le, 3, 3, True),
        ("is_in", F.is_in, 2, [1, 2], True), ("is_in/f", F.is_in, 3, [1, 2], False),
        ("is_not_in", F.is_not_in, 3, [1, 2], True), ("is_not_in/f", F.is_not_in, 2, [1, 2], False),
        ("contains", F.contains, [1, 2], 2, True), ("contains/f", F.contains, [1, 2], 3, False),
        ("does_not_contain", F.does_not_contain, [1, 2], 3, True), ("does_not_contain/f", F.does_not_contain, [1, 2], 2, False),
        ("intersects", F.intersects, {1, 2}, {2, 3}, True), ("intersects/f", F.intersects, {1, 2}, {3}, False),
        ("disjoint_from", F.disjoint_from, {1, 2}, {3}, True), ("disjoint_from/f", F.disjoint_from, {1, 2}, {2}, False),
        ("get_attribute", F.get_attribute, 3 + 4j, "imag", 4.0),
    ]
    cases = 0
    samples = []
    for name, fac, x, a, want in table:
        for form in ("constant", "option"):
            cases += 1
            try:
                if form == "constant":
                    step = fac(a)
                    o = {}
                else:
                    step = fac(Option("ARG"))
                    o = {"ARG": a}
                got = step.transform(x, o)
                if hasattr(got, "__next__"):
                    got = list(got)  # lazily evaluated helpers (itertools.chain ...)
                # the evaluated step is an ordinary function: applying it again gives the same result
                fn = step.evaluate(o)
                again = [fn(x), fn(x)]
                again = [list(g) if hasattr(g, "__next__") else g for g in again]
                if not (again[0] == got and again[1] == got):
                    viol.append(dict(desc=f"helper {name} ({form} argument): the evaluated step gives different results when applied again",
                                     helper=name, form=form, input=repr(x), arg=repr(a), first=repr(got), again=repr(again)))
                keys = step.keys(o)
                expl = step.explain({})
                if isinstance(got, float) and isinstance(want, float):
                    okv = got == want
                else:
                    okv = got == want and type(got) == type(want)
                okk = keys == (set() if form == "constant" else {"ARG"})
                oke = expl == (set() if form == "constant" else {"ARG"})
            except Exception as e:  # noqa
                got, okv, okk, oke = repr(e), False, False, False
            if len(samples) < 3:
                samples.append(dict(helper=name, form=form, input=repr(x), arg=repr(a), result=repr(got)))
            if not (okv and okk and oke):
                viol.append(dict(desc=f"helper {name} ({form} argument): result/keys/explain differ from the documented operation",
                                 helper=name, form=form, input=repr(x), arg=repr(a), got=repr(got), want=repr(want),
                                 keys_ok=okk, explain_ok=oke))
    # unary / variadic / higher-order helpers (documented behaviour, typed probes)
    unary = [
        ("negate", F.negate, X, P(("neg", xi))), ("negate/int", F.negate, 5, -5),
        ("length", F.length, [1, 2, 3], 3), ("flatten", F.flatten, [[1], [2, 3]], [1, 2, 3]),
        ("positive", F.positive, 1, True), ("positive/0", F.positive, 0, False),
        ("negative", F.negative, -1, True), ("negative/0", F.negative, 0, False),
        ("non_positive", F.non_positive, 0, True), ("non_positive/1", F.non_positive, 1, False),
        ("non_negative", F.non_negative, 0, True), ("non_negative/-1", F.non_negative, -1, False),
        ("even", F.even, 4, True), ("even/3", F.even, 3, False), ("odd", F.odd, 3, True), ("odd/4", F.odd, 4, False),
        ("is_none", F.is_none, None, True), ("is_none/0", F.is_none, 0, False),
        ("is_not_none", F.is_not_none, 0, True), ("is_not_none/None", F.is_not_none, None, False),
    ]
    for name, step, x, want in unary:
        cases += 1
        try:
            got = step.transform(x, {})
            if hasattr(got, "__next__"):
                got = list(got)
            ok = got == want
        except Exception as e:  # noqa
            got, ok = repr(e), False
        if not ok:
            viol.append(dict(desc=f"helper {name}: result differs from the documented operation",
                             helper=name, input=repr(x), got=repr(got), want=repr(want)))
    tag = lambda n: (lambda v: (n, v))  # noqa: E731
    ho = [
        ("map", lambda f: F.map(f), tag("f"), [1, 2], lambda r: list(r) == [("f", 1), ("f", 2)]),
        ("filter", lambda f: F.filter(f), (lambda v: v > 1), [1, 2, 3], lambda r: list(r) == [2, 3]),
        ("reduce", lambda f: F.reduce(f), (lambda a, b: ("r", a, b)), [1, 2, 3], lambda r: r == ("r", ("r", 1, 2), 3)),
        ("reduce/init", lambda f: F.reduce(f, 0), (lambda a, b: ("r", a, b)), [1, 2], lambda r: r == ("r", ("r", 0, 1), 2)),
        ("flatmap", lambda f: F.flatmap(f), (lambda v: [v, v]), [1, 2], lambda r: list(r) == [1, 1, 2, 2]),
        ("map_items", lambda f: F.map_items(f), (lambda k, v: (v, k)), {"a": 1}, lambda r: r == {1: "a"}),
        ("map_keys", lambda f: F.map_keys(f), tag("k"), {"a": 1}, lambda r: r == {("k", "a"): 1}),
        ("map_values", lambda f: F.map_values(f), tag("v"), {"a": 1}, lambda r: r == {"a": ("v", 1)}),
        ("filter_items", lambda f: F.filter_items(f), (lambda k, v: v > 1), {"a": 1, "b": 2}, lambda r: r == {"b": 2}),
        ("filter_keys", lambda f: F.filter_keys(f), (lambda k: k == "a"), {"a": 1, "b": 2}, lambda r: r == {"a": 1}),
        ("filter_values", lambda f: F.filter_values(f), (lambda v: v == 2), {"a": 1, "b": 2}, lambda r: r == {"b": 2}),
        ("into", lambda f: F.into(f), (lambda a, b: ("i", a, b)), [1, 2], lambda r: r == ("i", 1, 2)),
        ("invert", lambda f: F.invert(f), (lambda v: v > 1), 2, lambda r: r is False),
        ("all", lambda f: F.all(f, lambda v: v < 5), (lambda v: v > 1), 3, lambda r: r is True),
        ("all/f", lambda f: F.all(f, lambda v: v < 5), (lambda v: v > 1), 7, lambda r: r is False),
        ("any", lambda f: F.any(f, lambda v: v > 5), (lambda v: v < 1), 7, lambda r: r is True),
        ("any/f", lambda f: F.any(f, lambda v: v > 5), (lambda v: v < 1), 3, lambda r: r is False),
        ("one_of", lambda f: F.one_of(1, f), 2, 2, lambda r: r is True),
        ("one_of/f", lambda f: F.one_of(1, f), 2, 3, lambda r: r is False),
        ("none_of", lambda f: F.none_of(1, f), 2, 3, lambda r: r is True),
        ("none_of/f", lambda f: F.none_of(1, f), 2, 2, lambda r: r is False),
        ("instance_of", lambda f: F.instance_of(f), int, 3, lambda r: r is True),
        ("instance_of/f", lambda f: F.instance_of(f), str, 3, lambda r: r is False),
        ("has_remainder", lambda f: F.has_remainder(f, 1), 3, 7, lambda r: r is True),
        ("has_remainder/f", lambda f: F.has_remainder(f, 1), 3, 6, lambda r: r is False),
        ("call_method", lambda f: F.call_method(f, ","), "split", "a,b", lambda r: r == ["a", "b"]),
        ("ensure", lambda f: F.ensure(f), (lambda v: v > 0), 3, lambda r: r == 3),
    ]
    for name, fac, arg, x, okf in ho:
        for form in ("constant", "option"):
            cases += 1
            try:
                if form == "constant":
                    step, o = fac(arg), {}
                else:
                    from labrea.types import Value  # noqa
                    step, o = fac(Option("ARG")), {"ARG": arg}
                got = step.transform(x, o)
                ok = bool(okf(got))
                okk = step.keys(o) == (set() if form == "constant" else {"ARG"})
            except Exception as e:  # noqa
                got, ok, okk = repr(e), False, False
            if not (ok and okk):
                viol.append(dict(desc=f"helper {name} ({form} argument): result/keys differ from the documented operation",
                                 helper=name, form=form, input=repr(x), got=repr(got), keys_ok=okk))
    # helpers with a SECOND argument position (defaults, initial values, extra arguments): given as a
    # constant and as an option; the option's key must be reported and its VALUE used
    rfun = lambda a, b: ("r", a, b)  # noqa: E731
    second = [
        ("get/default used", lambda d: F.get("zz", d), {"a": 1}, 9, 9),
        ("get/default unused", lambda d: F.get("a", d), {"a": 1}, 9, 1),
        ("get/list default", lambda d: F.get(5, d), [1, 2], 9, 9),
        ("get_from/default used", lambda d: F.get_from({"a": 1}, d), "zz", 9, 9),
        ("get_from/default unused", lambda d: F.get_from({"a": 1}, d), "a", 9, 1),
        ("reduce/initial", lambda i: F.reduce(rfun, i), [1, 2], 0, ("r", ("r", 0, 1), 2)),
        ("has_remainder/remainder", lambda r: F.has_remainder(3, r), 7, 1, True),
        ("has_remainder/remainder f", lambda r: F.has_remainder(3, r), 7, 2, False),
        ("one_of/second", lambda v: F.one_of(1, v), 2, 2, True),
        ("none_of/second", lambda v: F.none_of(1, v), 2, 2, False),
    ]
    for name, fac, x, a, want in second:
        for form in ("constant", "option"):
            cases += 1
            try:
                step, o = (fac(a), {}) if form == "constant" else (fac(Option("ARG")), {"ARG": a})
                got = step.transform(x, o)
                ok = got == want and type(got) == type(want)
                okk = step.keys(o) == (set() if form == "constant" else {"ARG"})
                oke = step.explain({}) == (set() if form == "constant" else {"ARG"})
            except Exception as e:  # noqa
                got, ok, okk, oke = repr(e), False, False, False
            if not (ok and okk and oke):
                viol.append(dict(desc=f"helper {name} ({form} argument): result/keys/explain differ from the documented operation",
                                 helper=name, form=form, input=repr(x), arg=repr(a), got=repr(got), want=repr(want),
                                 keys_ok=okk, explain_ok=oke))
    return cases, samples


# ----------------------------------------------------------------------------- composition does not change its operands
#
# "(p + q).transform(x, o) equals q.transform(p.transform(x, o), o)", "iterating a pipeline yields its
# steps", "the empty pipeline is the identity" speak about p, q and the empty pipeline AS THEY ARE after
# the composition too: composing (with +, with the augmented `p += q`, which Python defines as
# p = p + q, with >> / >>=, at any nesting depth) hands out a NEW pipeline and leaves every object it
# was given - and every other reference to it - what it was.

def plain(t):
    """the same construction tree spelled with the binary + only"""
    if t[0] in ("add", "iadd"):
        return ("add", plain(t[1]), plain(t[2]))
    return t


def descs_payload(w):
    return {str(k): list(v) for k, v in w.descs.items()}


def snap(w, obj, opts_list):
    return tuple(observe_impl(w, w.as_pipeline(obj), o)[0] for o in opts_list)


def build_tracked(w, t, track, opts_list):
    """World.build, keeping every object made along the way (leaves and intermediate pipelines) with
    the observation taken when it was made; an evaluation of each happens between the compositions"""
    k = t[0]
    if k in ("add", "iadd"):
        lo = build_tracked(w, t[1], track, opts_list)
        ro = build_tracked(w, t[2], track, opts_list)
        if k == "add":
            res = lo + ro
        else:
            p = lo
            p += ro
            res = p
    else:
        res = w.build(t)
    track.append((t, res, snap(w, res, opts_list)))
    return res


def aliasing_oracle(w, leaves, t, opts_list, viol, tracked_out=None):
    """violations of "operands are unchanged by composition" for one construction tree (its nodes are
    + or +=); returns the number of checks"""
    L = w.L
    base = dict(leaves=leaves, descs=descs_payload(w), tree=t, options_list=opts_list, kind_detail="aliasing")
    checks = 0
    n0 = len(viol)
    track = []
    root = build_tracked(w, t, track, opts_list)
    root_snap = track[-1][2]

    def unchanged(stage):
        nonlocal checks
        for sub, obj, before in track:
            checks += 1
            after = snap(w, obj, opts_list)
            if after != before:
                viol.append(dict(base, desc=f"an object handed to a composition ({stage}) is no longer the pipeline it was: "
                                            "composition must not change its operands", operand=sub, before=before, after=after))
                return False
        return True
    ok = unchanged("+ / += inside the construction tree")
    # the augmented spelling denotes the same pipeline as the binary one
    checks += 1
    spec = snap(w, w.build(plain(t)), opts_list)
    if root_snap != spec:
        viol.append(dict(base, desc="a pipeline built with `p += q` differs from the one built with p + q", got=root_snap, want=spec))
    # one base, referenced from two places, extended into two variants
    if ok and not w.is_raw(t):
        ext = [leaves[0], leaves[-1]]
        for how in ("iadd", "add"):
            for x in ext:
                xo = w.build(x)
                p = root
                if how == "iadd":
                    p += xo
                else:
                    p = p + xo
                checks += 1
                got, want = snap(w, p, opts_list), snap(w, w.build(w.norm(("add", plain(t), x))), opts_list)
                if got != want:
                    viol.append(dict(base, desc=f"a shared base pipeline extended ({'+=' if how == 'iadd' else '+'}) into a second variant "
                                                "does not give base + step", extension=x, got=got, want=want))
                    ok = False
                    break
            ok = ok and unchanged(f"extension of the shared base with {'+=' if how == 'iadd' else '+'}")
            if not ok:
                break
    # e >> p and the augmented e >>= p: p and e stay what they were
    if ok:
        src = L["Option"]("SRC", default=[])
        e = src
        rp = w.as_pipeline(root)
        e >>= rp
        e2 = src >> rp
        for o in opts_list:
            po = dict(py_opts(o), SRC=[(77, None)])
            checks += 2
            want = attempt(lambda: rp.transform([(77, None)], po))
            for nm, ex in ((">>=", e), (">>", e2)):
                got = attempt(lambda: ex.evaluate(po))
                if got != want:
                    viol.append(dict(base, desc=f"(e {nm} p)(o) != p.transform(e(o), o)", options=o, got=got, want=want))
            if attempt(lambda: src.evaluate(po)) != [(77, None)]:
                viol.append(dict(base, desc="the source of e >>= p is no longer the expression it was", options=o))
        unchanged(">> / >>=")
    # accumulation loops starting from ONE empty pipeline object
    EMPTY = L["Pipeline"]()
    empty_snap = snap(w, EMPTY, opts_list)
    for rnd in (1, 2):
        acc = EMPTY
        nested = ("empty",)
        for x in leaves:
            acc += w.build(x)
            nested = ("add", nested, x)
        checks += 2
        got, want = snap(w, acc, opts_list), snap(w, w.build(nested), opts_list)
        if got != want:
            viol.append(dict(base, desc=f"accumulating the steps with += from a shared empty pipeline (round {rnd}) does not give their sum",
                             got=got, want=want))
        if not EMPTY.empty or snap(w, EMPTY, opts_list) != empty_snap or attempt(lambda: EMPTY.transform([], {})) != []:
            viol.append(dict(base, desc="the empty pipeline used as the start of a += accumulation is no longer the identity",
                             after=snap(w, EMPTY, opts_list)))
            break
    if tracked_out is not None:
        tracked_out.extend((sub, obj) for sub, obj, _ in track)
    del viol[n0 + 1:]      # one failing input per tree is enough
    return checks


def augment(rng, t):
    """the same bracketing with some of its + spelled +="""
    if t[0] != "add":
        return t
    return ("iadd" if rng.random() < 0.6 else "add", augment(rng, t[1]), augment(rng, t[2]))


# ----------------------------------------------------------------------------- helper constructions in a longer history
#
# "each of which computes the corresponding Python operation with the documented operand order": for
# THIS operand, whatever helper steps were built before in the process.  Constants that are == (and
# hash alike) but are different Python values (1, 1.0, True; 0, -0.0, False; (1, 2), (1.0, 2.0);
# equal lists) give different Python operations; results are compared with their TYPE (type name +
# repr), failures by exception class, on numeric, string, list, tuple and mapping inputs.

EQUAL_GROUPS = [
    [1, 1.0, True], [0, 0.0, False, -0.0], [2, 2.0], [4, 4.0], [-1, -1.0],
    [(1, 2), (1.0, 2.0), (True, 2)], [[1], [1.0], [True]], ["a", "a"], [(), ()], [None, None],
]
HISTORY_INPUTS = [2, 5, 7.5, True, "ab", "%s|", [0, 1], (3, 4), {1: "one", 0: "zero", "a": "A"}, None, -3, 0]


def binary_helpers():
    import labrea.functions as F
    return {
        "add": (F.add, lambda x, a: x + a),
        "subtract": (F.subtract, lambda x, a: x - a),
        "multiply": (F.multiply, lambda x, a: x * a),
        "left_multiply": (F.left_multiply, lambda x, a: a * x),
        "divide_by": (F.divide_by, lambda x, a: x / a),
        "divide_into": (F.divide_into, lambda x, a: a / x),
        "modulo": (F.modulo, lambda x, a: x % a),
        "eq": (F.eq, lambda x, a: x == a), "ne": (F.ne, lambda x, a: x != a),
        "gt": (F.gt, lambda x, a: x > a), "ge": (F.ge, lambda x, a: x >= a),
        "lt": (F.lt, lambda x, a: x < a), "le": (F.le, lambda x, a: x <= a),
        "get": (F.get, lambda x, a: x[a]),
        "get/default": (lambda a: F.get("zz", a), _get_default),
        "get_from": (F.get_from, lambda x, a: a[x]),
        "append": (F.append, lambda x, a: [*x, a]),
        "concat": (F.concat, lambda x, a: [*x, *a]),
        "contains": (F.contains, lambda x, a: a in x), "does_not_contain": (F.does_not_contain, lambda x, a: a not in x),
        "is_in": (F.is_in, lambda x, a: x in a), "is_not_in": (F.is_not_in, lambda x, a: x not in a),
        "one_of": (lambda a: F.one_of(a, "q"), lambda x, a: x in (a, "q")),
        "none_of": (lambda a: F.none_of(a, "q"), lambda x, a: x not in (a, "q")),
        "has_remainder/divisor": (lambda a: F.has_remainder(a, 1), lambda x, a: x % a == 1),
        "has_remainder/remainder": (lambda a: F.has_remainder(2, a), lambda x, a: x % 2 == a),
        "reduce/initial": (lambda a: F.reduce((lambda u, v: u + v), a), lambda x, a: _fold(x, a)),
    }


def _get_default(x, a):
    try:
        return x["zz"]
    except (KeyError, IndexError):      # "the default value to return if the key/index is not found"
        return a


def _fold(x, a):
    for v in x:
        a = a + v
    return a


def typed_outcome(thunk):
    try:
        v = thunk()
        if hasattr(v, "__next__"):
            v = list(v)
        return ("ok", type(v).__name__, repr(v))
    except Exception as e:  # noqa
        return ("raise", type(e).__name__)


def helper_history_check(name, consts, upto=None):
    """build helper `name` for the constants in order (one process, one history); every step built must
    compute the Python operation for ITS operand.  Returns (first failure or None, checks)"""
    from labrea import Option
    fac, op = binary_helpers()[name]
    checks = 0
    swept = fac(Option("ARG"))           # ONE step with an option-valued argument, swept over the same values
    shared = {}
    steps = []
    for i, c in enumerate(consts):
        step = fac(c)
        steps.append(step)
        for x in HISTORY_INPUTS:
            want = typed_outcome(lambda: op(x, c))
            shared.clear()
            shared["ARG"] = c
            forms = [("constant", lambda: step.transform(x, {})),
                     ("option", lambda: swept.transform(x, shared)),
                     ("option (fresh step)", lambda: fac(Option("ARG")).transform(x, {"ARG": c}))]
            if want[0] == "ok":
                forms.append(("e >> helper(constant)", lambda: (Option("IN") >> step)({"IN": x})))
            for form, th in forms:
                checks += 1
                got = typed_outcome(th)
                if got != want:
                    return dict(desc=f"helper {name} built for the constant {c!r} (after it was built for {[repr(k) for k in consts[:i]]}) "
                                     f"does not compute the Python operation for its own operand ({form} argument)",
                                helper_history=name, consts=[repr(k) for k in consts[:i + 1]], form=form, input=repr(x),
                                got=list(got), python=list(want), kind_detail="helper-history"), checks
        # the steps built earlier are still the steps they were
        for j, (s0, c0) in enumerate(zip(steps[:-1], consts)):
            x = HISTORY_INPUTS[(i + j) % len(HISTORY_INPUTS)]
            checks += 1
            got, want = typed_outcome(lambda: s0.transform(x, {})), typed_outcome(lambda: op(x, c0))
            if got != want:
                return dict(desc=f"helper {name}: the step built for {c0!r} changed after the helper was built for {c!r}",
                            helper_history=name, consts=[repr(k) for k in consts[:i + 1]], form="constant (earlier step)", input=repr(x),
                            got=list(got), python=list(want), kind_detail="helper-history"), checks
        if step.keys({}) != set() or step.explain({}) != set() or swept.keys(shared) != {"ARG"} or swept.explain() != {"ARG"}:
            return dict(desc=f"helper {name}: keys()/explain() do not report exactly the option-valued argument",
                        helper_history=name, consts=[repr(k) for k in consts[:i + 1]], form="keys", input="", got=[], python=[],
                        kind_detail="helper-history"), checks
    return None, checks


def helper_histories(rng, viol, rounds):
    """per helper ONE growing history (the process-wide one of this run): groups of ==-equal constants
    in random order, with repeats"""
    names = sorted(binary_helpers())
    hist = {n: [] for n in names}
    checks = 0
    failed = set()
    for r in range(rounds):
        name = names[r % len(names)] if r < 2 * len(names) else rng.choice(names)
        if name in failed:
            continue
        g = list(rng.choice(EQUAL_GROUPS[:5]) if r < len(names) else rng.choice(EQUAL_GROUPS))
        rng.shuffle(g)
        g.append(g[0])                    # o1, o2, ..., o1 again
        start = len(hist[name])
        hist[name] += g
        # the whole history of this helper is replayed from its start on a failure (so that the replay file
        # reproduces it in a fresh process); the check itself only needs the new part
        v, n = helper_history_check(name, g)
        checks += n
        if v is not None:
            full, _ = helper_history_check(name, hist[name])
            viol.append(full if full is not None else v)
            failed.add(name)
    return checks, {n: len(h) for n, h in hist.items()}


def gen_world_kinds(rng, L):
    """sequences whose steps are of every callable kind x parameter kind, and user subclasses of PipelineStep
    overriding every non-empty subset of the Evaluatable protocol; mixed with the older leaf kinds"""
    n = rng.randint(1, 5)
    descs, leaves = {}, []
    subsets = [ov for k in range(1, 5) for ov in itertools.combinations(OVERRIDABLE, k)]
    for i in range(1, n + 1):
        r = rng.random()
        key, dflt = rng.randint(1, 3), rng.choice([None, None, 5, 6])
        if r < 0.45:
            descs[i] = ("kparam", key, dflt, rng.choice(CALLABLE_KINDS), rng.choice(sorted(PARAM_KINDS)))
            raw = descs[i][4] in RAW_PARAM_KINDS
            leaves.append(("step", i) if raw else rng.choice([("step", i), ("step", i), ("single", i)]))
        elif r < 0.80:
            descs[i] = ("sub", key, dflt, rng.choice(subsets))
            leaves.append(rng.choice([("step", i), ("step", i), ("single", i)]))
        elif r < 0.86:
            descs[i] = ("param", key, dflt)
            leaves.append(("step", i))
        elif r < 0.92:
            descs[i] = rng.choice([("callable",), ("plain",), ("raise",)])
            leaves.append(("step", i))
        elif r < 0.97:
            leaves.append(("empty",))
        else:
            leaves.append(("identity",))
    return World(L, descs), leaves


def world_stream(ctx, L, gen, n_worlds, max_brackets, cases, viol, dist, distinct):
    """n_worlds step sequences from `gen` x all bracketings (sampled above the cap) x 3-4 option dictionaries: the
    oracle on each, and one model case per (bracketing, dictionary); returns the number of oracle checks"""
    rng = ctx.rng
    oracle_checks = 0
    for wi in range(n_worlds):
        w, leaves = gen(rng, L)
        for l in leaves:
            kind = l[0] if l[0] != "step" else w.descs[l[1]][0]
            dist["leaves"][kind] = dist["leaves"].get(kind, 0) + 1
            if kind == "kparam":
                for kk in w.descs[l[1]][3:5]:
                    dist["step_kinds"][kk] = dist["step_kinds"].get(kk, 0) + 1
            if kind == "sub":
                kk = "+".join(w.descs[l[1]][3])
                dist["subclass_overrides"][kk] = dist["subclass_overrides"].get(kk, 0) + 1
        dist["lengths"][len(leaves)] = dist["lengths"].get(len(leaves), 0) + 1
        trees = bracketings(leaves)
        if len(trees) > max_brackets:
            trees = rng.sample(trees, max_brackets)
        trees = [w.norm(t) for t in trees]
        opts_list = gen_options(rng)
        built = [w.build(t) for t in trees]
        n_before = len(viol)
        oracle_checks += oracle(w, leaves, trees, built, opts_list, viol)
        for v in viol[n_before:]:
            v.setdefault("descs", descs_payload(w))
        tbl = w.coq_tbl()
        for t, b in zip(trees, built):
            p = w.as_pipeline(b)
            for o in opts_list:
                line, obs = observe_impl(w, p, o)
                expr = f"observe {tbl} {w.coq_cexpr(t)} {coq_opts(o)}"
                cases.append((expr, line, dict(leaves=leaves, descs=descs_payload(w), tree=t, options=o)))
                if obs["transform"] is None:
                    dist["outcomes"]["transform_fail"] += 1
                else:
                    dist["outcomes"]["transform_ok"] += 1
                if obs["keys"] is None:
                    dist["outcomes"]["keys_fail"] += 1
                if len(leaves) >= 2 and obs["transform"]:
                    distinct.add(lib.stable_hash([leaves, sorted(w.descs.items()), t, sorted(o.items())]))
    return oracle_checks


def run(ctx):
    L = _labrea()
    rng = ctx.rng
    n_worlds = 60 if ctx.quick else 600
    max_brackets = 14 if ctx.quick else 132
    cases = []     # (coq expr, impl line, payload)
    viol = []
    dist = {"leaves": {}, "lengths": {}, "outcomes": {"transform_ok": 0, "transform_fail": 0, "keys_fail": 0},
            "step_kinds": {}, "subclass_overrides": {}}
    distinct = set()
    oracle_checks = world_stream(ctx, L, gen_world, n_worlds, max_brackets, cases, viol, dist, distinct)
    # ---- drawn after the older stream (which stays what it was for a given seed): construction trees whose
    # nodes are + or +=, every object built along the way observed again AFTER all compositions
    alias_checks, alias_trees, alias_cases = 0, 0, 0
    for wi in range(50 if ctx.quick else 500):
        w, leaves = gen_world(rng, L)
        trees = bracketings(leaves)
        trees = [w.norm(augment(rng, t)) for t in rng.sample(trees, min(len(trees), 2 if ctx.quick else 4))]
        opts_list = gen_options(rng)[:3]
        tbl = w.coq_tbl()
        for t in trees:
            tracked = []
            alias_checks += aliasing_oracle(w, leaves, t, opts_list, viol, tracked)
            alias_trees += 1
            seen_sub = set()
            for sub, obj in tracked:      # the model's value of every sub-pipeline vs the object as it is NOW
                if repr(sub) in seen_sub:
                    continue
                seen_sub.add(repr(sub))
                o = opts_list[1] if sub is not t else opts_list[-1]
                line, _ = observe_impl(w, w.as_pipeline(obj), o)
                cases.append((f"observe {tbl} {w.coq_cexpr(sub)} {coq_opts(o)}", line,
                              dict(leaves=leaves, descs=descs_payload(w), tree=sub, options=o, whole_tree=t, observed="after all compositions")))
                alias_cases += 1
    hviol = []
    hist_checks, hist_lengths = helper_histories(rng, hviol, 90 if ctx.quick else 900)
    # ---- drawn after every older stream: steps of every callable kind x parameter kind, user subclasses of PipelineStep
    n_old_cases = len(cases)
    oracle_checks += world_stream(ctx, L, gen_world_kinds, 70 if ctx.quick else 700, 5 if ctx.quick else 14, cases, viol, dist, distinct)
    dist["kind_stream_model_cases"] = len(cases) - n_old_cases
    model_lines = ctx.coq_eval("Cases_C13", ["Model.Pipeline", "Model.PipelineRun"], "", [c[0] for c in cases])
    mism = []
    for (expr, line, payload), ml in zip(cases, model_lines):
        if ml != line:
            mism.append(dict(where="Model/Pipeline.v vs labrea.pipeline", scenario=payload, impl=line, model=ml))
    hcases, hsamples = helper_enumeration(hviol)
    for v in hviol:
        v.setdefault("kind_detail", "helper")
    violations = [dict(v, finding=None) for v in viol + hviol]
    samples = [dict(scenario=cases[i][2], observation=cases[i][1]) for i in range(0, len(cases), max(1, len(cases) // 4))][:4] + hsamples[:2]
    return {
        "evaluations": len(cases) + oracle_checks + hcases + alias_checks + hist_checks,
        "distinct_nontrivial": len(distinct),
        "rule": "random sequences of 1-6 leaves (decorated steps with option parameters with/without default, plain and raising callables, "
                "Pipeline(step), empty pipelines, the Identity step) x all bracketings (sampled above the cap) x 3-4 option dictionaries; "
                "a case is non-trivial when it has >= 2 leaves and its transform succeeds with a non-empty step stack; distinct by hash of "
                "(leaves, step table, bracketing, options). Helper table: every listed helper x {constant, option} argument form (finite, complete). "
                "Kind stream: sequences of 1-5 leaves whose steps are @pipeline_step / PartialApplication.lift over 7 kinds of Python callable x 17 ways "
                "of declaring the option parameter, and user subclasses of PipelineStep overriding every non-empty subset of evaluate / keys / explain / "
                "validate (all of them the model's SParam), mixed with the older leaf kinds, x up to 5 bracketings x 3-4 dictionaries.",
        "samples": samples,
        "traces_validated_against_impl": len(cases),
        "correspondence_mismatches": mism[:5],
        "violations": violations,
        "known": [],
        "distribution": dict(dist, oracle_checks=oracle_checks, helper_cases=hcases, model_cases=len(cases), mismatches=len(mism),
                             aliasing_trees=alias_trees, aliasing_checks=alias_checks, aliasing_model_cases=alias_cases,
                             helper_history_checks=hist_checks, helper_history_lengths=hist_lengths),
        "exhaustive": False,
        "assumptions": [
            "steps are deterministic functions of (input, parameters); the free-algebra bodies make any wrong argument visible",
            "the Identity step is labrea.pipeline.Identity (Value(_identity)); hypotheses sev_id/ap_id/skeys_id/svalid_id of the Section",
            "helper table = documented operation per helper (docstring first sentence), enumerated against the implementation, not proved",
        ],
        "trusted_base": ["labrea.functions helper semantics: enumerated (finite table x argument forms), not modelled in Coq"],
    }


def replay(ctx, payload):
    L = _labrea()
    v = payload
    if "leaves" in v and "descs" in v.get("scenario", v):
        pass
    sc = v.get("scenario", v)
    if v.get("kind_detail") == "helper-history":
        import ast
        consts = [ast.literal_eval(c) for c in v["consts"]]
        f, n = helper_history_check(v["helper_history"], consts)
        return f is not None, {"helper": v["helper_history"], "history": v["consts"], "checks": n, "failure": f}
    if v.get("kind_detail") == "aliasing":
        w = World(L, {int(k): tuple(d) for k, d in v["descs"].items()})
        tup = lambda t: tuple(tup(x) if isinstance(x, list) else x for x in t)  # noqa: E731
        av = []
        n = aliasing_oracle(w, [tup(l) for l in v["leaves"]], tup(v["tree"]),
                            [{int(k): val for k, val in o.items()} for o in v["options_list"]], av)
        return bool(av), {"checks": n, "failures": av[:2]}
    if "helper" in v:
        hv = []
        helper_enumeration(hv)
        still = [x for x in hv if x.get("helper") == v["helper"]]
        return bool(still), {"helper": v["helper"], "still_failing": still[:2]}
    if "descs" not in sc:
        # oracle payloads carry leaves/tree/options but the world is regenerated from leaves only if descs present
        return True, {"note": "payload has no step table; re-run the check to regenerate", "payload": v}
    descs = {int(k): tuple(d) for k, d in sc["descs"].items()}
    w = World(L, descs)

    def tup(t):
        return tuple(tup(x) if isinstance(x, list) else x for x in t)
    leaves = [tup(l) for l in sc["leaves"]]
    o = {int(k): val for k, val in sc["options"].items()}
    viol = []
    if "tree" not in sc:        # an associativity failure names two bracketings
        ts = [tup(sc["tree_a"]), tup(sc["tree_b"])]
        oracle(w, leaves, ts, [w.build(t) for t in ts], [o], viol)
        return bool(viol), {"oracle_violations": viol[:3]}
    t = tup(sc["tree"])
    oracle(w, leaves, [t], [w.build(t)], [o, o], viol)
    line, _ = observe_impl(w, w.as_pipeline(w.build(t)), o)
    ml = ctx.coq_eval("Replay_C13", ["Model.Pipeline", "Model.PipelineRun"], "",
                      [f"observe {w.coq_tbl()} {w.coq_cexpr(t)} {coq_opts(o)}"])[0]
    return bool(viol) or ml != line, {"oracle_violations": viol[:3], "impl": line, "model": ml}
