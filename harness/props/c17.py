"""C17 — an unreliable cache backend costs recomputation, never a wrong value or failure.

Correspondence of Model/CacheFault.v with labrea.cache / labrea.dataset in front of a scripted
faulty `labrea.cache.Cache` subclass (public ABC), plus the property's own oracle on the
implementation (every evaluation == a cache-free evaluation of a fresh graph; bodies executed are a
subsequence of the cache-free ones; every evaluation returns within a budget of backend calls).

Input families beyond the call-indexed fault scripts:
* backend object styles: the scripted store itself, or a composite Cache delegating to it (the inner
  store's CacheGetFailure propagates, naming the INNER object), or one re-raising the miss as its own;
* graphs reading option keys that live inside the LABREA section of the dictionary (siblings of
  labrea's own CACHE / LOGGING settings), required or with a never-needed default;
* persistent adversaries: every exists/get/set call of an evaluation misbehaves the same way, and
  payload-loss events (exists True, get failing until the entry is rewritten); the model is asked about
  the call-indexed adversary the run actually applied;
* the interpreter's environment: part of the scripted histories is run with warnings promoted to errors
  (`warnings.simplefilter("error")`, what `python -W error` / pytest's filterwarnings=error do): same
  observation demanded (the model is asked the same question);
* the CLASS of the miss: the contract says "get raises CacheGetFailure"; the scripted store raises CacheGetFailure itself, a
  user subclass of it, or a user subclass that ALSO derives from a builtin exception class (KeyError, LookupError, IndexError,
  OSError, TimeoutError, RuntimeError, ValueError, TypeError, AttributeError, ... in either base order), wherever the contract
  lets a miss surface: get after exists() answered True, the read-back get after set, and the get made by the INHERITED
  Cache.exists of a backend that does not override exists (style "getonly": oracle only, its call log has no exists calls);
  the model does not distinguish the classes (same observation demanded);
* two threads asking for the same entry at overlapping times (oracle only: the model is sequential): thread A
  is held at a chosen point of its evaluation (inside a body, or just before one of its backend calls) while
  thread B evaluates the same dataset with the same options (bounded wait: B finishes, or is found blocked),
  then A goes on; each thread's backend calls misbehave per its own script.  Both evaluations must return
  the correct value, executing at most the bodies of a recomputation, and both must return."""
import contextlib
import itertools
import random
import json
import threading
import time
import warnings

import lib

PID = "C17"
COQ_TARGETS = ["Model/CacheFaultRun.vo"]
BAD = 13                       # option value on which a body that reads it directly raises
KINDS = ("B", "M", "L", "F")   # behave, miss(+forget), lie-exists, fail-get
COQ_KIND = {"B": "Behave", "M": "Miss", "L": "LieExists", "F": "FailGet"}

# Option keys: k < 10 is the top-level key "K<k>"; larger numbers are keys that live INSIDE labrea's own
# LABREA section of the dictionary, next to its CACHE / LOGGING settings (numeric order = the order of the
# dotted names as strings, so the model's sorted fingerprint is the implementation's).
LKEYS = {11: "LABREA.CACHE.K11", 12: "LABREA.K12", 14: "LABREA.LOGGING.K14"}


def key_name(k):
    return LKEYS[k] if k in LKEYS else f"K{k}"


def build_options(opts, cache_disabled=False):
    """The (nested) options dictionary of [(key number, value)]."""
    po = {}
    for k, v in opts:
        parts = key_name(k).split(".")
        cur = po
        for p in parts[:-1]:
            cur = cur.setdefault(p, {})
        cur[parts[-1]] = v
    if cache_disabled:
        po.setdefault("LABREA", {}).setdefault("CACHE", {})["DISABLED"] = True
    return po


# graph shapes: dataset i = list of arguments ("o", k) = Option(key k) | ("p", k) = Option(key k, 0) (a
# default that is never needed: every dictionary supplies every key) | ("d", j) = dataset j < i
GRAPHS = {
    "single": [[("o", 1), ("o", 2)]],
    "chain": [[("o", 1)], [("d", 0), ("o", 2)], [("d", 1)]],
    "tri": [[("o", 1)], [("d", 0), ("o", 2)], [("d", 1), ("d", 0)]],
    "diamond": [[("o", 1)], [("d", 0), ("o", 2)], [("d", 0)], [("d", 1), ("d", 2)]],
    "fan": [[("o", 1)], [("o", 2)], [("d", 0), ("d", 1), ("o", 3)]],
    "pair": [[("o", 1)], [("d", 0), ("d", 0), ("o", 1)]],
}
# graphs that read keys of the LABREA section (siblings of labrea's own settings)
LAB_GRAPHS = {
    "lab": [[("o", 1), ("o", 12)]],
    "labdef": [[("p", 14), ("o", 1)]],
    "labchain": [[("p", 14), ("o", 1)], [("d", 0), ("o", 11)], [("d", 1), ("p", 12)]],
}
STYLES = ("direct", "front", "front2", "rewrap")   # how a dataset's backend object reaches the scripted store
# the class the scripted store raises on a miss: None = labrea.cache.CacheGetFailure itself, "sub" = a user subclass,
# "<Builtin>" = class Miss(CacheGetFailure, <Builtin>), "<Builtin>-first" = class Miss(<Builtin>, CacheGetFailure)
MISS_CLASSES = ("sub", "KeyError", "KeyError-first", "LookupError", "IndexError", "OSError", "OSError-first", "TimeoutError",
                "RuntimeError", "NotImplementedError", "ValueError", "TypeError", "TypeError-first", "AttributeError",
                "AssertionError", "EOFError", "ArithmeticError")
MISS_STYLES = STYLES + ("getonly", "getonly")     # "getonly": a delegating backend that inherits Cache.exists (= try get)


def make_miss_class(miss):
    import builtins
    from labrea.cache import CacheGetFailure
    if miss is None:
        return CacheGetFailure
    if miss == "sub":
        return type("VerifCacheMiss", (CacheGetFailure,), {})
    name, _, first = miss.partition("-")
    base = getattr(builtins, name)
    if not first:
        return type("VerifCacheMiss" + name, (CacheGetFailure, base), {})

    def __init__(self, evaluatable, options, cache):
        CacheGetFailure.__init__(self, evaluatable, options, cache)
    return type("VerifCacheMiss" + name + "First", (base, CacheGetFailure), {"__init__": __init__})
# persistent adversaries: behaviour of every exists / get / set call for the whole evaluation
PHASES = ("BBB", "LFB", "LFM", "LBB", "BFB", "MMM")


class Livelock(BaseException):
    """Harness instrumentation: one evaluation made more backend calls than its budget."""


def tree_size(shape, d):
    """Number of dataset evaluations of the unfolded (cache-free) evaluation of dataset d."""
    return 1 + sum(tree_size(shape, a[1]) for a in shape[d] if a[0] == "d")


def call_budget(shape, d):
    """A recomputation needs at most 4 backend calls per dataset evaluation (exists, get, set, read-back);
    ten times that (and 40 more) is 'never returns' for a backend that misbehaves persistently."""
    return 40 * tree_size(shape, d) + 40


class BodyErr(Exception):
    def __init__(self, d):
        super().__init__(f"body of dataset {d} raises")
        self.d = d


class Script:
    """The adversary: behaviour of the k-th backend call (then behave forever) + the call log."""

    def __init__(self):
        self.reset("")

    def reset(self, script):
        self.script = script
        self.n = 0
        self.log = []       # (kind, dataset, answer/hit)
        self.used = []      # (behaviour, call kind) for every consumed non-behave entry
        self.applied = []   # behaviour applied at every backend call so far (the adversary as a function of the call index)
        self.phase = "BBB"  # beyond the script: behaviour of every exists / get / set call (persistent)
        self.poisoned = set()   # (backend, fingerprint): payload lost, index kept, until the entry is rewritten / dropped
        self.budget = None
        self.eval_calls = 0
        self.per_thread = None   # two-thread steps: thread name -> [script, calls made]; behave beyond
        self.before_call = None  # two-thread steps: hook(thread name, index of the call about to be made)
        self.tlog = []           # two-thread steps: (thread, call kind, backend, behaviour)

    def next(self, kind, key=None):
        self.eval_calls += 1
        if self.budget is not None and self.eval_calls > self.budget:
            raise Livelock(f"more than {self.budget} backend calls in one evaluation")
        if self.per_thread is not None:
            name = threading.current_thread().name
            st = self.per_thread.setdefault(name, ["", 0])
            if self.before_call is not None:
                self.before_call(name, st[1])
            b = st[0][st[1]] if st[1] < len(st[0]) else "B"
            st[1] += 1
            self.tlog.append((name, kind, key[0] if key else None, b))
        elif self.n < len(self.script):
            b = self.script[self.n]
        else:
            b = self.phase["EGS".index(kind)]
            if b in "BL" and kind == "G" and key in self.poisoned:
                b = "F"
        self.n += 1
        if b != "B":
            self.used.append((b, kind))
        self.applied.append(b)
        return b


def make_cache_class(miss=None):
    from labrea.cache import Cache
    CacheGetFailure = make_miss_class(miss)      # noqa: N806  (what this store raises on a miss)

    class ScriptedCache(Cache):
        """A dict behind the public Cache ABC whose every call first asks the adversary."""

        def __init__(self, script, name):
            self.sc = script
            self.name = name
            self.d = {}

        def _settle(self, f):
            if f not in self.d:
                self.sc.poisoned.discard((self.name, f))

        def exists(self, evaluatable, options):
            f = evaluatable.fingerprint(options)
            b = self.sc.next("E", (self.name, f))
            if b == "M":
                self.d.pop(f, None)
                r = False
            elif b == "L":
                r = True
            elif b == "F":
                r = False
            else:
                r = f in self.d
            self._settle(f)
            self.sc.log.append(("E", self.name, r))
            return r

        def get(self, evaluatable, options):
            f = evaluatable.fingerprint(options)
            b = self.sc.next("G", (self.name, f))
            if b == "M":
                self.d.pop(f, None)
            self._settle(f)
            if b in ("M", "F") or f not in self.d:
                self.sc.log.append(("G", self.name, False))
                raise CacheGetFailure(evaluatable, options, self)
            self.sc.log.append(("G", self.name, True))
            return self.d[f]

        def set(self, evaluatable, options, value):
            f = evaluatable.fingerprint(options)
            b = self.sc.next("S", (self.name, f))
            if b == "M":
                self.d.pop(f, None)
            else:
                self.d[f] = value
            self.sc.poisoned.discard((self.name, f))      # rewritten (or dropped): the entry is whole again
            self.sc.log.append(("S", self.name, None))

    return ScriptedCache


def make_front_classes(miss=None):
    """Contract-following composite backends: all storage lives in an inner Cache object."""
    from labrea.cache import Cache, CacheGetFailure
    own_miss = make_miss_class(miss)

    class FrontCache(Cache):
        """Delegates every call; a miss is reported by the inner store's own CacheGetFailure, which simply
        propagates (its `.cache` names the inner store, not this object)."""

        def __init__(self, inner):
            self.inner = inner

        def get(self, evaluatable, options):
            return self.inner.get(evaluatable, options)

        def set(self, evaluatable, options, value):
            self.inner.set(evaluatable, options, value)

        def exists(self, evaluatable, options):
            return self.inner.exists(evaluatable, options)

    class RewrapCache(FrontCache):
        """Delegates; reports the inner store's miss as its own CacheGetFailure (cause = the inner one)."""

        def get(self, evaluatable, options):
            try:
                return self.inner.get(evaluatable, options)
            except CacheGetFailure as e:
                raise own_miss(evaluatable, options, self) from e

    class GetOnlyCache(Cache):
        """Delegates get and set and INHERITS Cache.exists (documented default: try get, a CacheGetFailure means no)."""

        def __init__(self, inner):
            self.inner = inner

        def get(self, evaluatable, options):
            return self.inner.get(evaluatable, options)

        def set(self, evaluatable, options, value):
            self.inner.set(evaluatable, options, value)

    return FrontCache, RewrapCache, GetOnlyCache


class World:
    """One live labrea graph; backends are reset between scenarios (labrea keeps no other state)."""

    def __init__(self, shape, faulty=True, style="direct", miss=None):
        from labrea import Option, dataset
        self.shape = shape
        self.style = style
        self.miss = miss
        self.env = None         # interpreter environment of the evaluations (None | "warnings-error")
        self.pair_runs = []     # two-thread steps: (thread, dataset, ok) for every body started
        self.in_body = None     # two-thread steps: hook(thread name, dataset) called when a body starts
        self.script = Script()
        self.runs = []
        self.caches = []    # the scripted stores
        self.ds = []
        cls = make_cache_class(miss) if faulty else None
        front, rewrap, getonly = make_front_classes(miss) if faulty else (None, None, None)
        for i, args in enumerate(shape):
            defaults = {}
            for n, a in enumerate(args):
                if a[0] == "o":
                    defaults[f"a{n}"] = Option(key_name(a[1]))
                elif a[0] == "p":
                    defaults[f"a{n}"] = Option(key_name(a[1]), 0)
                else:
                    defaults[f"a{n}"] = self.ds[a[1]]
            body = self._body(i)
            if faulty:
                c = cls(self.script, i)
                self.caches.append(c)
                if style == "front":
                    c = front(c)
                elif style == "front2":
                    c = front(front(c))
                elif style == "rewrap":
                    c = rewrap(c)
                elif style == "getonly":
                    c = getonly(c)
                elif style != "direct":
                    raise ValueError(style)
                self.ds.append(dataset(cache=c, defaults=defaults)(body))
            else:
                self.ds.append(dataset(defaults=defaults)(body))

    def _body(self, i):
        runs = self.runs

        def body(**kw):
            vals = tuple(kw.values())
            ok = not any(isinstance(v, int) and v == BAD for v in vals)
            if self.in_body is not None:
                name = threading.current_thread().name
                self.pair_runs.append((name, i, ok))
                self.in_body(name, i)
            runs.append((i, ok))
            if not ok:
                raise BodyErr(i)
            return ("t", i) + vals
        body.__name__ = f"ds{i}"
        return body

    def reset(self, script):
        self.script.reset(script)
        del self.runs[:]
        for c in self.caches:
            c.d.clear()

    def evaluate(self, dis, d, opts):
        """-> (result string, calls, runs) of one evaluation, canonicalised."""
        from labrea.cache import disabled
        po = build_options(opts)
        c0, r0 = len(self.script.log), len(self.runs)
        self.script.eval_calls = 0
        self.script.budget = call_budget(self.shape, d)
        try:
            with environment(self.env):
                if dis == "runtime":
                    with disabled():
                        v = self.ds[d](po)
                elif dis == "option":
                    v = self.ds[d](build_options(opts, cache_disabled=True))
                else:
                    v = self.ds[d](po)
            res = "ok:" + show_val(v)
        except Livelock:
            res = "hang"
        except Exception as e:  # canonicalise: which body raised, or the exception class
            res = classify(e)
        self.script.budget = None
        po = build_options(opts)
        calls = self.script.log[c0:]
        runs = self.runs[r0:]
        fps = {}
        for (i, _ok) in runs:
            if i not in fps:
                fps[i] = show_fp(self.ds[i].fingerprint(po))
        return res, calls, [(i, ok, fps[i]) for i, ok in runs]


@contextlib.contextmanager
def environment(env):
    """The interpreter environment an evaluation runs in.  "warnings-error": every warning is an exception
    (python -W error, PYTHONWARNINGS=error, pytest filterwarnings=error)."""
    if env is None:
        yield
    elif env == "warnings-error":
        with warnings.catch_warnings():
            warnings.simplefilter("error")
            yield
    else:
        raise ValueError(env)


def classify(e):
    seen = set()
    x = e
    last = e
    while x is not None and id(x) not in seen:
        seen.add(id(x))
        if isinstance(x, BodyErr):
            return f"raise:{x.d}"
        last = x
        x = x.__cause__ or x.__context__
    from labrea.cache import CacheFailure
    y = e
    seen = set()
    while y is not None and id(y) not in seen:
        seen.add(id(y))
        if isinstance(y, CacheFailure):
            return "exc:" + type(y).__name__
        y = y.__cause__ or y.__context__
    return "exc:" + type(last).__name__


def show_val(v):
    if isinstance(v, tuple) and len(v) >= 2 and v[0] == "t":
        return f"t{v[1]}(" + ",".join(show_val(x) for x in v[2:]) + ")"
    if isinstance(v, bool) or not isinstance(v, int):
        return "?" + type(v).__name__
    return str(v)


def show_fp(b):
    try:
        items = json.loads(b.decode())
        out = []
        for it in items:
            (k, v), = it.items()
            out.append(f"{int(k.rsplit('K', 1)[1])}={v}")
        return "&".join(out)
    except Exception:
        return "?fp"


def show_eval(res, calls, runs):
    res = "".join(ch if (ch.isalnum() or ch in ":(),_?.") else "_" for ch in res)
    cs = ",".join(f"{k}{d}" + ("" if a is None else ("T" if a else "F")) for k, d, a in calls)
    rs = ",".join(f"{d}{'+' if ok else '-'}{{{fp}}}" for d, ok, fp in runs)
    return f"{res};{cs};{rs}"


# ----------------------------------------------------------------------------- Coq rendering

def coq_shape(shape):
    def arg(a):
        return f"AOpt {a[1]}" if a[0] in ("o", "p") else f"ADs {a[1]}"
    return "([" + "; ".join("[" + "; ".join(arg(a) for a in args) + "]" for args in reversed(shape)) + "]%N : list (list arg))"


def coq_script(s):
    return "[" + "; ".join(COQ_KIND[c] for c in s) + "]"


def coq_hist(h):
    def op(o):
        dis, d, opts = o
        ol = "[" + "; ".join(f"({k}, {v})" for k, v in opts) + "]"
        return f"({'true' if dis else 'false'}, {d}, {ol})"
    return "([" + "; ".join(op(o) for o in h) + "]%N : list (bool * N * list (N * N)))"


# ----------------------------------------------------------------------------- histories

def option_dicts(shape, rng, n, with_bad):
    ks = sorted({a[1] for args in shape for a in args if a[0] in ("o", "p")})
    base = [(k, rng.choice([1, 2, 3])) for k in ks]
    out = [base]
    while len(out) < n:
        o = list(base)
        j = rng.randrange(len(ks))
        o[j] = (o[j][0], rng.choice([4, 5, 6]))
        if o not in out:
            out.append(o)
    if with_bad:
        o = list(base)
        j = rng.randrange(len(ks))
        o[j] = (o[j][0], BAD)
        out.append(o)
    return out


def gen_history(shape, rng, lo=3, hi=8, p_dis=0.12, p_bad=0.5):
    n = rng.randint(lo, hi)
    dicts = option_dicts(shape, rng, rng.choice([2, 3]), rng.random() < p_bad)
    top = len(shape) - 1
    h = []
    for _ in range(n):
        d = top if rng.random() < 0.7 else rng.randrange(len(shape))
        if h and rng.random() < 0.35:
            opts = h[-1][2]          # immediate repeat
        else:
            opts = rng.choice(dicts)
        r = rng.random()
        dis = "runtime" if r < p_dis else ("option" if r < 1.5 * p_dis else False)
        h.append((dis, d, opts))
    return h


FIXED_HISTORIES = {
    # few backend calls per evaluation: the first 6-9 calls span several evaluations
    "single": [(False, 0, [(1, 1), (2, 2)]), (False, 0, [(1, 1), (2, 2)]), (False, 0, [(1, 1), (2, 5)]),
               (False, 0, [(1, 1), (2, 2)]), (False, 0, [(1, BAD), (2, 2)]), (False, 0, [(1, 1), (2, 5)]),
               (False, 0, [(1, 1), (2, 2)])],
    "chain": [(False, 1, [(1, 1), (2, 2)]), (False, 2, [(1, 1), (2, 2)]), (False, 2, [(1, 1), (2, 5)]),
              (False, 2, [(1, 1), (2, 2)]), (False, 0, [(1, 1), (2, 2)])],
    "diamond": [(False, 3, [(1, 1), (2, 2)]), (False, 3, [(1, 1), (2, 2)]), (False, 3, [(1, 1), (2, 5)]),
                (False, 2, [(1, 1), (2, 2)])],
    "tri": [(False, 0, [(1, 1), (2, 2)]), (False, 2, [(1, 1), (2, 2)]), (False, 2, [(1, 1), (2, 2)]),
            (False, 1, [(1, 4), (2, 2)]), (False, 2, [(1, 4), (2, 2)])],
    "fan": [(False, 2, [(1, 1), (2, 2), (3, 3)]), (False, 2, [(1, 1), (2, 2), (3, 4)]),
            (False, 0, [(1, 1), (2, 2), (3, 3)]), (False, 2, [(1, 1), (2, 2), (3, 3)])],
    "pair": [(False, 1, [(1, 1)]), (False, 1, [(1, 1)]), (False, 1, [(1, 2)]), (False, 0, [(1, 1)]),
             (False, 1, [(1, 1)])],
}


# ----------------------------------------------------------------------------- oracle (implementation only)

def eager(shape, d, opts):
    """What the graph's bodies compute, written directly (no labrea at all): the correct value for
    these options, and the bodies an uncached evaluation executes, in order."""
    od = dict(opts)
    runs = []

    def ev(i):
        vals = tuple(od[a[1]] if a[0] in ("o", "p") else ev(a[1]) for a in shape[i])
        ok = not any(isinstance(v, int) and v == BAD for v in vals)
        runs.append((i, ok))
        if not ok:
            raise BodyErr(i)
        return ("t", i) + vals
    try:
        return "ok:" + show_val(ev(d)), runs
    except BodyErr as e:
        return f"raise:{e.d}", runs


class Reference:
    """Cache-free yardstick: a FRESH graph (default MemoryCache backends, never the scripted ones)
    evaluated under labrea.cache.disabled(); memoised per (graph, dataset, options) — it is a pure
    function of those.  It must itself be the eager computation of the bodies."""

    def __init__(self):
        self.memo = {}

    def get(self, gname, shape, d, opts, viol=None):
        key = (gname, d, tuple(opts))
        if key not in self.memo:
            w = World(shape, faulty=False)   # genuinely fresh objects for every distinct question
            res, calls, runs = w.evaluate("runtime", d, opts)
            runs2 = [(i, ok) for i, ok, _ in runs]
            want, want_runs = eager(shape, d, opts)
            if (res, runs2) != (want, want_runs) and viol is not None:
                viol.append(dict(desc="a fresh graph evaluated under labrea.cache.disabled() does not return the value its bodies compute "
                                      "(the cache layer changes results even when switched off)",
                                 graph=gname, shape=shape, script="", history=hist_json([("runtime", d, opts)]),
                                 evaluation_index=0, got=res, want=want, got_runs=runs2, want_runs=want_runs))
            self.memo[key] = (want, want_runs, show_eval(res, calls, runs))
        return self.memo[key]


def is_subsequence(a, b):
    it = iter(b)
    return all(any(x == y for y in it) for x in a)


def scenario_fields(w, extra):
    """What a replay needs besides (graph, script, history)."""
    out = {"style": w.style}
    if w.miss:
        out["miss"] = w.miss
    if extra and extra.get("env"):
        out["env"] = extra["env"]
    if extra and extra.get("phases"):
        out["phases"] = list(extra["phases"])
    if extra and extra.get("poison"):
        out["poison"] = list(extra["poison"])
    return out


def run_scenario(w, gname, script, hist, ref, viol, stats, extra=None):
    """Run one scenario on the implementation; return its observation line. Oracle failures -> viol.

    extra: {"phases": per evaluation, the persistent behaviour of (exists, get, set) calls beyond the script;
            "poison": indices of evaluations before which every stored entry loses its payload but stays listed
                      (exists -> True, get -> CacheGetFailure) until it is rewritten or dropped}."""
    w.reset(script)
    w.env = (extra or {}).get("env")
    phases = (extra or {}).get("phases")
    poison = set((extra or {}).get("poison") or ())
    fields = scenario_fields(w, extra)
    lines = []
    succeeded = {}     # (dataset, fingerprint) -> index of the cache-enabled evaluation whose body run succeeded
    twice = None
    for idx, (dis, d, opts) in enumerate(hist):
        w.script.phase = phases[idx] if phases else "BBB"
        if idx in poison:
            w.script.poisoned |= {(c.name, f) for c in w.caches for f in c.d}
        res, calls, runs = w.evaluate(dis, d, opts)
        if res == "hang":
            stats["evaluations"] += 1
            lines.append("hang;;")
            viol.append(dict(desc=f"evaluation did not return: more than {call_budget(w.shape, d)} backend calls in ONE evaluation "
                                  f"(a recomputation needs at most {4 * tree_size(w.shape, d)}) — the library keeps consulting a backend "
                                  "that keeps misbehaving instead of recomputing",
                             graph=gname, shape=w.shape, script=script, history=hist_json(hist), **fields,
                             evaluation_index=idx, got="no result", want=ref.get(gname, w.shape, d, opts, viol)[0],
                             got_runs=[(i, ok) for i, ok, _ in runs], want_runs=[],
                             backend_calls=[list(c) for c in calls[:12]] + ["..."]))
            break
        lines.append(show_eval(res, calls, runs))
        if not dis:
            for i, ok, fp in runs:
                if ok and (i, fp) in succeeded and twice is None:
                    twice = dict(dataset=i, fingerprint=fp, first=succeeded[(i, fp)], again=idx)
                if ok:
                    succeeded.setdefault((i, fp), idx)
        want, want_runs, _ = ref.get(gname, w.shape, d, opts, viol)
        got_runs = [(i, ok) for i, ok, _ in runs]
        stats["evaluations"] += 1
        bad = None
        if res != want:
            if res.startswith("exc:"):
                bad = f"evaluation raised {res[4:]} although the cache-free computation " + (
                    "returns a value" if want.startswith("ok:") else "raises the body's own error")
            elif res.startswith("ok:") and want.startswith("ok:"):
                bad = "evaluation returned a value different from the correct (cache-free) value for its options"
            elif res.startswith("ok:"):
                bad = "evaluation returned a value although a body raises for these options (cache-free: the body's error)"
            else:
                bad = "evaluation failed although the cache-free computation does not fail that way"
        elif not is_subsequence(got_runs, want_runs):
            bad = "bodies executed are not a subsequence of the cache-free evaluation's (more than recomputation)"
        if bad:
            viol.append(dict(desc=bad, graph=gname, shape=w.shape, script=script, history=hist_json(hist), **fields,
                             evaluation_index=idx, got=res, want=want, got_runs=got_runs,
                             want_runs=want_runs, backend_calls=[list(c) for c in calls]))
        if res.startswith("raise:"):
            stats["failing_evaluations"] += 1
        if dis:
            stats["disabled_evaluations"] += 1
        elif not runs:
            stats["served_from_cache"] += 1
    if twice is not None and not w.script.used:
        # the truthful end of the cost range: no fault was consumed, yet a body succeeded twice
        viol.append(dict(desc="with a backend that never misbehaved, a (dataset, fingerprint) body was executed "
                              "successfully twice (recomputation without any fault)",
                         graph=gname, shape=w.shape, script=script, history=hist_json(hist), **fields,
                         evaluation_index=twice["again"], got=f"dataset {twice['dataset']} {{{twice['fingerprint']}}} ran again",
                         want=f"served from the cache (it succeeded in evaluation {twice['first']})"))
    if twice is None and not w.script.used:
        stats["truthful_scenarios_each_body_once"] += 1
    for b, k in w.script.used:
        stats["faults_consumed"][b + "@" + k] = stats["faults_consumed"].get(b + "@" + k, 0) + 1
    return "/".join(lines), len(w.script.used), "".join(w.script.applied)


# ----------------------------------------------------------------------------- two threads, one entry

PAIR_WAIT = 0.06     # bounded wait for thread B while A is held: B finishes (it does, at once, on the code as it is) or is blocked
PAIR_JOIN = 20.0     # bounded wait for either thread to return at all


def run_pair_scenario(w, gname, pair, ref, viol, stats):
    """pair = {"pre": history run first (one thread, truthful backend), "d", "opts": the entry both threads ask for,
               "hold": ["body", i] (A is held when it starts the body of dataset i) | ["call", k] (A is held just
                       before its k-th backend call) | None (no overlap: A, then B),
               "scripts": {"A": .., "B": ..} behaviour of the k-th backend call OF THAT THREAD, "post": history run
               afterwards (one thread, truthful backend), "env": interpreter environment}.
    Hand-off: A runs until it is held; B then runs the same evaluation for at most PAIR_WAIT seconds (it returns, or
    it is found waiting for A); A is released; both are joined (bounded).  Returns the observation line."""
    w.reset("")
    w.env = pair.get("env")
    d, opts = pair["d"], [tuple(kv) for kv in pair["opts"]]
    fields = dict(style=w.style, pair={k: v for k, v in pair.items()})
    lines = []

    def check(idx, who, res, got_runs, dd, oo, calls=None):
        want, want_runs, _ = ref.get(gname, w.shape, dd, oo, viol)
        stats["evaluations"] += 1
        bad = None
        if res == "hang":
            bad = "evaluation did not return (thread still waiting after the other thread's evaluation had returned, or backend call budget exceeded)"
        elif res != want:
            if res.startswith("exc:"):
                bad = f"evaluation raised {res[4:]} although the cache-free computation " + (
                    "returns a value" if want.startswith("ok:") else "raises the body's own error")
            elif res.startswith("ok:") and want.startswith("ok:"):
                bad = "evaluation returned a value different from the correct (cache-free) value for its options"
            elif res.startswith("ok:"):
                bad = "evaluation returned a value although a body raises for these options (cache-free: the body's error)"
            else:
                bad = "evaluation failed although the cache-free computation does not fail that way"
        elif not is_subsequence(got_runs, want_runs):
            bad = "bodies executed are not a subsequence of the cache-free evaluation's (more than recomputation)"
        if bad:
            viol.append(dict(desc=bad + (f" [thread {who} of two threads asking for the same entry]" if who else ""),
                             graph=gname, shape=w.shape, script="", history=hist_json([(False, d, opts)]), **fields,
                             evaluation_index=idx, got=res, want=want, got_runs=got_runs, want_runs=want_runs,
                             backend_calls=[list(c) for c in (calls if calls is not None else w.script.tlog)][:40]))

    idx = 0
    for (dis, dd, oo) in hist_from_json(pair.get("pre") or []):
        res, calls, runs = w.evaluate(dis, dd, oo)
        lines.append(show_eval(res, calls, runs))
        check(idx, None, res, [(i, ok) for i, ok, _ in runs], dd, oo, calls)
        idx += 1

    # ---- the overlapped step
    hold = pair.get("hold")
    held, release = threading.Event(), threading.Event()
    state = {"held_once": False}

    def maybe_hold(name, at):
        if name == "A" and hold is not None and not state["held_once"] and list(at) == list(hold):
            state["held_once"] = True
            held.set()
            release.wait(PAIR_JOIN)
    w.in_body = lambda name, i: maybe_hold(name, ("body", i))
    w.script.before_call = lambda name, k: maybe_hold(name, ("call", k))
    w.script.per_thread = {n: [pair["scripts"].get(n, ""), 0] for n in ("A", "B")}
    del w.pair_runs[:]
    del w.script.tlog[:]
    w.script.eval_calls = 0
    w.script.budget = 2 * call_budget(w.shape, d)
    po = {n: build_options(opts) for n in ("A", "B")}
    box, done = {}, {n: threading.Event() for n in ("A", "B")}

    def worker(name):
        try:
            v = w.ds[d](po[name])       # (the warning filter is process-wide: it is set around the whole step below)
            box[name] = "ok:" + show_val(v)
        except Livelock:
            box[name] = "hang"
        except BaseException as e:  # noqa: BLE001
            box[name] = classify(e)
        finally:
            done[name].set()
    ta = threading.Thread(target=worker, args=("A",), name="A", daemon=True)
    tb = threading.Thread(target=worker, args=("B",), name="B", daemon=True)
    with environment(w.env):
        ta.start()
        while not (held.is_set() or done["A"].is_set()):
            held.wait(0.002)
            if not ta.is_alive():
                break
        tb.start()
        blocked = not done["B"].wait(PAIR_WAIT if held.is_set() and not done["A"].is_set() else PAIR_JOIN)
        release.set()
        done["A"].wait(PAIR_JOIN)
        done["B"].wait(PAIR_JOIN)
    stats["pair_steps"] = stats.get("pair_steps", 0) + 1
    stats["pair_steps_overlapped"] = stats.get("pair_steps_overlapped", 0) + (1 if state["held_once"] else 0)
    stats["pair_steps_b_waited_for_a"] = stats.get("pair_steps_b_waited_for_a", 0) + (1 if blocked else 0)
    for b, _k in [(t[3], t[1]) for t in w.script.tlog if t[3] != "B"]:
        stats["faults_consumed"][b + "@pair"] = stats["faults_consumed"].get(b + "@pair", 0) + 1
    w.in_body = None
    w.script.before_call = None
    w.script.budget = None
    for name in ("A", "B"):
        res = box.get(name, "hang")
        runs = [(i, ok) for n, i, ok in w.pair_runs if n == name]
        cs = ",".join(f"{k}{c}{b}" for n, k, c, b in w.script.tlog if n == name)
        lines.append(f"{name}:{res};{cs};" + ",".join(f"{i}{'+' if ok else '-'}" for i, ok in runs))
        check(idx, name, res, runs, d, opts)
    idx += 1
    alive = ta.is_alive() or tb.is_alive()
    w.script.per_thread = None
    if not alive:
        for (dis, dd, oo) in hist_from_json(pair.get("post") or []):
            res, calls, runs = w.evaluate(dis, dd, oo)
            lines.append(show_eval(res, calls, runs))
            check(idx, None, res, [(i, ok) for i, ok, _ in runs], dd, oo, calls)
            idx += 1
    n_faults = sum(1 for t in w.script.tlog if t[3] != "B")
    return "/".join(lines), n_faults, alive


def unfolded(shape, d):
    """datasets whose bodies the cache-free evaluation of d executes"""
    out = {d}
    for a in shape[d]:
        if a[0] == "d":
            out |= unfolded(shape, a[1])
    return out


def pair_scenarios(ctx, graphs):
    """Yield (graph name, pair) - see run_pair_scenario."""
    rng = ctx.rng
    quick = ctx.quick
    base = {"single": [(1, 1), (2, 2)], "chain": [(1, 1), (2, 2)], "diamond": [(1, 1), (2, 2)], "pair": [(1, 1)]}
    top = {g: len(GRAPHS[g]) - 1 for g in base}
    # (1) exhaustive: every behaviour of B's first n backend calls, A truthful, A held in the top body
    n = 4 if quick else 5
    for g in (("single", "chain") if quick else ("single", "chain", "diamond")):
        for sb in itertools.product(KINDS, repeat=n):
            yield g, dict(pre=[], d=top[g], opts=base[g], hold=["body", top[g]], scripts={"A": "", "B": "".join(sb)}, post=[])
    # (2) exhaustive: every behaviour of the first 3 calls of BOTH threads on the one-dataset graph, each hold point
    for hold in (["body", 0], ["call", 1], ["call", 2], None):
        for sa in itertools.product(KINDS, repeat=2 if (quick or hold in (["call", 1], ["call", 2])) else 3):
            for sb in itertools.product(KINDS, repeat=3):
                yield "single", dict(pre=[], d=0, opts=base["single"], hold=hold, scripts={"A": "".join(sa), "B": "".join(sb)},
                                     post=[[False, 0, [list(kv) for kv in base["single"]]]])
    # (3) random: graphs, entries, hold points (a body of the unfolded evaluation / a backend call), warm or cold, scripts,
    #     some under warnings-as-errors, a raising body now and then
    names = list(GRAPHS)
    for _ in range(500 if quick else 3000):
        g = rng.choice(names)
        shape = graphs[g]
        hist = gen_history(shape, rng, lo=1, hi=3, p_dis=0.0, p_bad=0.25)
        _dis, d, opts = hist[-1]
        pre = hist[:-1] if rng.random() < 0.5 else []
        r = rng.random()
        if r < 0.6:
            hold = ["body", rng.choice(sorted(unfolded(shape, d)))]
        elif r < 0.9:
            hold = ["call", rng.randrange(0, 3 * tree_size(shape, d))]
        else:
            hold = None
        dens = rng.choice([0.0, 0.3, 0.6, 1.0])

        def scr():
            return "".join(rng.choice("MLF") if rng.random() < dens else "B" for _ in range(rng.randint(0, 10)))
        post = [(False, d, opts)] if rng.random() < 0.5 else []
        yield g, dict(pre=hist_json(pre), d=d, opts=[list(kv) for kv in opts], hold=hold, scripts={"A": scr(), "B": scr()},
                      post=hist_json(post), env="warnings-error" if rng.random() < 0.25 else None)


def work_pairs(chunk):
    worlds, ref, viol, stats, out = {}, Reference(), [], new_stats(), []
    for gname, shape, pair, style in chunk:
        wk = (gname, style)
        if wk not in worlds:
            worlds[wk] = World(shape, style=style)
        line, n_faults, alive = run_pair_scenario(worlds[wk], gname, pair, ref, viol, stats)
        if alive:       # a thread is still stuck inside this world: never reuse it
            del worlds[wk]
        out.append((line, n_faults))
    return out, viol, stats


def hist_json(h):
    return [[dis, d, [list(kv) for kv in opts]] for dis, d, opts in h]


def hist_from_json(h):
    return [(dis, d, [tuple(kv) for kv in opts]) for dis, d, opts in h]


# ----------------------------------------------------------------------------- run

EXH_THOROUGH = (9, 8, 7, 7)   # exhaustive prefix length on single, diamond, chain, tri


def scenarios(ctx):
    """Yield (graph name, script string, history, stream label)."""
    rng = ctx.rng
    quick = ctx.quick
    sizes = dict(single=6, diamond=6) if quick else dict(zip(("single", "diamond", "chain", "tri"), EXH_THOROUGH))
    for g, n in sizes.items():                            # exhaustive prefix scripts
        for s in itertools.product(KINDS, repeat=n):
            yield g, "".join(s), FIXED_HISTORIES[g], f"exhaustive-{n}"
    # exhaustive windows further into the history (behave before the window)
    win = 4 if quick else 5
    for g in (["chain", "tri", "pair"] if quick else list(GRAPHS)):
        for off in ((4, 9) if quick else (3, 6, 9, 12, 16)):
            for s in itertools.product(KINDS, repeat=win):
                yield g, "B" * off + "".join(s), FIXED_HISTORIES[g], f"window-{win}"
    # random longer scripts, random histories, all graphs (+ random DAGs in run())
    names = list(GRAPHS)
    for _ in range(1500 if quick else 20000):
        g = rng.choice(names)
        hist = gen_history(GRAPHS[g], rng)
        ln = rng.randint(6, 40)
        dens = rng.choice([0.15, 0.4, 0.75, 1.0])
        s = "".join(rng.choice("MLF") if rng.random() < dens else "B" for _ in range(ln))
        yield g, s, hist, "random"


def random_dags(rng, n, prefix="dag", keys=None):
    out = {}
    for i in range(n):
        k = rng.randint(2, 5)
        shape = []
        for j in range(k):
            args = []
            for _ in range(rng.randint(1, 3)):
                if j > 0 and rng.random() < 0.6:
                    args.append(("d", rng.randrange(j)))
                elif keys is None:
                    args.append(("o", rng.randint(1, 3)))
                else:
                    args.append((rng.choice("op"), rng.choice(keys)))
            shape.append(args)
        out[f"{prefix}{i}"] = shape
    return out


LAB_HISTORIES = {
    "lab": [(False, 0, [(1, 1), (12, 2)]), (False, 0, [(1, 1), (12, 2)]), (False, 0, [(1, 1), (12, 5)]),
            (False, 0, [(1, 1), (12, 2)]), ("option", 0, [(1, 1), (12, 2)]), (False, 0, [(1, 4), (12, 5)])],
    "labdef": [(False, 0, [(1, 1), (14, 2)]), (False, 0, [(1, 1), (14, 2)]), (False, 0, [(1, 1), (14, 5)]),
               (False, 0, [(1, 1), (14, 2)])],
    "labchain": [(False, 2, [(1, 1), (11, 2), (12, 3), (14, 4)]), (False, 2, [(1, 1), (11, 2), (12, 3), (14, 4)]),
                 (False, 1, [(1, 1), (11, 5), (12, 3), (14, 4)]), (False, 2, [(1, 1), (11, 2), (12, 3), (14, 6)]),
                 (False, 0, [(1, 1), (11, 2), (12, 3), (14, 4)])],
}
PHASE_HISTORIES = {
    "single": FIXED_HISTORIES["single"][:4],
    "chain": FIXED_HISTORIES["chain"][:3],
}
ALL_PHASES = [e + g + st for e in "BMLF" for g in "BMF" for st in "BM"]


def gen_phases(rng, n):
    """Persistent behaviour per evaluation + the evaluations before which the stored payloads are lost."""
    phases = ["BBB" if rng.random() < 0.4 else rng.choice(ALL_PHASES) for _ in range(n)]
    poison = [i for i in range(1, n) if rng.random() < 0.2]
    return phases, poison


def more_scenarios(ctx, graphs):
    """The round-2 families: yield (graph name, script, history, stream label, extra).
    extra["style"] None = chosen at random by the caller."""
    rng = ctx.rng
    quick = ctx.quick
    graphs.update(LAB_GRAPHS)
    # (1) graphs reading keys INSIDE the LABREA section: exhaustive prefixes, windows, random
    for g, n in (("lab", 5 if quick else 7), ("labdef", 4 if quick else 6)):
        for sc in itertools.product(KINDS, repeat=n):
            yield g, "".join(sc), LAB_HISTORIES[g], f"labrea-section-exhaustive-{n}", {}
    win = 4 if quick else 5
    for off in ((0, 5) if quick else (0, 3, 6, 9, 12)):
        for sc in itertools.product(KINDS, repeat=win):
            yield "labchain", "B" * off + "".join(sc), LAB_HISTORIES["labchain"], f"labrea-section-window-{win}", {}
    ldags = random_dags(rng, 3 if quick else 30, prefix="ldag", keys=[1, 2, 11, 12, 14])
    graphs.update(ldags)
    lnames = list(LAB_GRAPHS) + list(ldags)
    for _ in range(300 if quick else 4000):
        g = rng.choice(lnames)
        hist = gen_history(graphs[g], rng)
        dens = rng.choice([0.15, 0.4, 0.75, 1.0])
        sc = "".join(rng.choice("MLF") if rng.random() < dens else "B" for _ in range(rng.randint(4, 30)))
        yield g, sc, hist, "labrea-section-random", {}
    # (2) PERSISTENT adversaries: the backend misbehaves the same way at EVERY call of an evaluation
    for g, hist in PHASE_HISTORIES.items():
        for ph in itertools.product(PHASES, repeat=len(hist)):
            yield g, "", hist, "persistent-exhaustive", {"phases": list(ph)}
    names = list(graphs)
    for _ in range(700 if quick else 8000):
        g = rng.choice(names)
        hist = gen_history(graphs[g], rng)
        phases, poison = gen_phases(rng, len(hist))
        sc = ""
        if rng.random() < 0.3:
            sc = "".join(rng.choice("BMLF") for _ in range(rng.randint(1, 6)))
        yield g, sc, hist, "persistent-random", {"phases": phases, "poison": poison}


def coq_eval_fallback(ctx, name, prelude, exprs):
    """The comparison happens inside Coq ("=" per agreeing case), so shards can be large; when many
    cases disagree the printed model lines overflow coqc's stack: retry with small shards.
    Thorough tier: at most 6 coqc processes at a time (each holds 0.45-0.56 GB)."""
    kw = {} if ctx.quick else {"jobs": 6}
    try:
        return ctx.coq_eval(name, ["Model.CacheFault", "Model.CacheFaultRun"], prelude, exprs, shard=150 if ctx.quick else 400, **kw)
    except RuntimeError as e:
        if "Stack overflow" not in str(e):
            raise
        lib.log(f"[C17] {name}: many disagreements, re-running the model in small shards")
        return ctx.coq_eval(name + "s", ["Model.CacheFault", "Model.CacheFaultRun"], prelude, exprs, shard=20, **kw)


def new_stats():
    return {"evaluations": 0, "failing_evaluations": 0, "disabled_evaluations": 0,
            "served_from_cache": 0, "truthful_scenarios_each_body_once": 0, "faults_consumed": {},
            "pair_steps": 0, "pair_steps_overlapped": 0, "pair_steps_b_waited_for_a": 0}


def work(chunk):
    """Run a chunk of scenarios on the implementation (in a worker process)."""
    worlds, ref, viol, stats, out = {}, Reference(), [], new_stats(), []
    for gname, shape, script, hist, extra in chunk:
        wk = (gname, extra["style"], extra.get("miss"))
        if wk not in worlds:
            worlds[wk] = World(shape, style=extra["style"], miss=extra.get("miss"))
        out.append(run_scenario(worlds[wk], gname, script, hist, ref, viol, stats, extra))
    return out, viol, stats, {k: v[2] for k, v in ref.memo.items()}


THOROUGH_BATCH = 40000     # thorough tier: scenarios generated / evaluated / compared with the model per batch (memory bound)
KEEP_VIOLATIONS = 400      # oracle failures kept between batches (the lightest ones; the count of all of them is kept)



# --- persistent Cached nodes (labrea.cached(x, backend) kept across the history; a dataset builds a new Cached per call),
# --- histories mixing evaluate / __call__ / validate / keys / explain: oracle only (round 5, seed C17-r5seed1)
PERSIST_OPS = ("evaluate", "evaluate", "call", "validate", "validate", "keys", "explain")


def gen_persistent(rng, depth):
    dicts = [(rng.randint(1, 3), rng.randint(1, 3)) for _ in range(2)]
    hist = []
    for _ in range(rng.randint(3, 9)):
        x, y = rng.choice(dicts)
        hist.append([rng.choice(PERSIST_OPS), rng.randrange(depth), x, y])
    script = "".join(rng.choice("MLF") if rng.random() < 0.4 else "B" for _ in range(rng.randint(2, 24)))
    return script, hist


def run_persistent(script, hist, depth):
    """-> [(index, op, got, want)] for every operation of the history that failed or returned something else than the
    eager computation; the backends follow the Cache contract and misbehave per the script (M, L, F as everywhere here)."""
    from labrea import Option, cached
    from labrea.application import FunctionApplication
    sc = Script()
    sc.reset(script)
    cls = make_cache_class(None)

    def mk(i, inner):
        def body(x, y):
            return ("t", i, x, y)
        body.__name__ = f"p{i}"
        return FunctionApplication(body, x=Option("X"), y=inner)

    node, nodes = Option("Y"), []
    for i in range(depth):
        node = cached(mk(i, node), cls(sc, i))
        nodes.append(node)

    def want(i, x, y):
        v = y
        for j in range(i + 1):
            v = ("t", j, x, v)
        return v

    out = []
    for idx, (op, i, x, y) in enumerate(hist):
        o = {"X": x, "Y": y}
        sc.eval_calls, sc.budget = 0, 40 * depth + 40
        w = None
        try:
            if op in ("evaluate", "call"):
                w = want(i, x, y)
                r = nodes[i].evaluate(o) if op == "evaluate" else nodes[i](o)
            elif op == "validate":
                r = nodes[i].validate(o)
            else:
                w = ["X", "Y"]
                r = sorted(nodes[i].keys(o) if op == "keys" else nodes[i].explain(o))
            got = repr(r)
        except Livelock:
            got = "no result"
        except Exception as e:      # noqa: BLE001
            got = "raise:" + type(e).__name__
        if got != repr(w):
            out.append((idx, op, got, repr(w)))
    return out


def persistent_stream(ctx, viol):
    rng = random.Random(ctx.rng.random())
    n = 1500 if ctx.quick else 20000
    ops = {}
    fixed = [("BB" + b, [["evaluate", 0, 1, 1], ["validate", 0, 1, 1], ["evaluate", 0, 1, 1]], 1) for b in "MLFB"]
    for k in range(n):
        if k < len(fixed):
            script, hist, depth = fixed[k]
        else:
            depth = 1 + k % 3
            script, hist = gen_persistent(rng, depth)
        for h in hist:
            ops[h[0]] = ops.get(h[0], 0) + 1
        bad = run_persistent(script, hist, depth)
        for idx, op, got, w in bad[:1]:
            viol.append(dict(desc=f"persistent cached(...) node, history mixing evaluate/validate/keys/explain: {op}() under a misbehaving "
                                  "backend failed or returned something else than the eager computation",
                             graph="persistent-chain", shape=[depth], script=script, history=hist, persistent=True,
                             evaluation_index=idx, got=got, want=w))
    return dict(scenarios=n, operations=ops)


def violation_key(v):
    return lib.stable_hash([v["desc"], v["shape"], v["script"], v["history"], v["evaluation_index"],
                            v.get("style"), v.get("phases"), v.get("poison"), v.get("env"), v.get("pair"), v.get("miss")])


def violation_weight(v):
    pr = v.get("pair")
    pw = 0 if not pr else 2 + sum(len(x.rstrip("B")) for x in pr["scripts"].values()) + len(pr.get("pre") or ()) + len(pr.get("post") or ())
    return (len(v["script"].rstrip("B")) + 3 * len(v.get("phases") or ()) + pw + (1 if v.get("env") else 0),
            len(v["history"]), v["evaluation_index"])


def build_todo(ctx, graphs):
    """every scenario of the run, in generation order: [(graph name, script, history, label, extra)], stream sizes, two-thread
    scenarios, number of scenarios drawn before the warnings-as-errors copies.  (Scenario descriptions are small: fixed
    histories are shared objects; what is large - observations, model questions - is produced per batch in run().)"""
    rng = ctx.rng
    streams = {}
    todo = []      # (graph name, script, history, label, extra)
    for g, s, hist, label in scenarios(ctx):
        todo.append((g, s, hist, label, {"style": "direct"}))
    for g, shape in random_dags(rng, 6 if ctx.quick else 60).items():
        graphs[g] = shape
        for _ in range(40 if ctx.quick else 150):
            hist = gen_history(shape, rng)
            s = "".join(rng.choice("MLF") if rng.random() < 0.5 else "B" for _ in range(rng.randint(4, 30)))
            todo.append((g, s, hist, "random-dag", {"style": "direct"}))
    # every scenario above once more behind a DELEGATING backend object (the model's answer is the same one)
    n_direct = len(todo)
    for k in range(n_direct):
        g, s, hist, label, _ = todo[k]
        if label.startswith("exhaustive") and s[6:].strip("B"):
            continue    # (thorough tier: the delegating copy of the exhaustive streams stops at prefix length 6)
        todo.append((g, s, hist, label + "+delegating", {"style": STYLES[1 + k % (len(STYLES) - 1)]}))
    for g, s, hist, label, extra in more_scenarios(ctx, graphs):
        todo.append((g, s, hist, label, dict(extra, style=rng.choice(STYLES))))
    # the class of the miss (and backends inheriting Cache.exists): copies of scenarios above (the model's answer is the same one)
    import random as _random
    mrng = _random.Random(ctx.seed * 613 + 17)
    n_before = len(todo)
    pool_ix = {}
    for k in range(n_before):
        pool_ix.setdefault(todo[k][3], []).append(k)
    seen3 = {}
    # per class: every script of the first 3 calls, and of calls 4-6 after a truthful start (one-dataset graph, fixed history)
    for k in pool_ix.get("exhaustive-6", []) + pool_ix.get("exhaustive-9", []):
        g, s, hist, label, extra = todo[k]
        if g == "single" and extra["style"] == "direct" and not s[6:].strip("B") and (s[3:6] == "BBB" or s[:3] == "BBB"):
            seen3[s[:6]] = (g, s[:6], hist)
    for m in MISS_CLASSES:
        for (g, s, hist) in seen3.values():
            todo.append((g, s, hist, "miss-class-exhaustive-3+3", {"style": "direct", "miss": m}))
    labels = [lb for lb in pool_ix if not lb.startswith("exhaustive")]
    for _ in range(1500 if ctx.quick else 6000):
        g, s, hist, label, extra = todo[mrng.choice(pool_ix[mrng.choice(labels)])]
        style = mrng.choice(MISS_STYLES)
        x = dict(extra, style=style, miss=mrng.choice(MISS_CLASSES + (None,) if style == "getonly" else MISS_CLASSES))
        if style == "getonly":
            x["oracle_only"] = True
        todo.append((g, s, hist, "miss-class-random" + ("+getonly" if style == "getonly" else ""), x))
    # part of the scenarios above once more in an interpreter whose warnings are errors (same observation demanded)
    quota = {"exhaustive-6": 4096, "random": 600, "persistent-exhaustive": 1300, "labrea-section-exhaustive-4": 256,
             "window-4": 256, "random-dag": 120, "persistent-random": 300, "labrea-section-random": 150}
    if not ctx.quick:       # (bounded: the thorough tier has to fit in ~40 minutes and a few GB on a 16-core machine)
        quota = {k: 4 * v for k, v in quota.items()}
        quota.update({"exhaustive-7": 8192, "window-5": 2048, "labrea-section-exhaustive-6": 2048})
    for k in range(n_before):
        g, s, hist, label, extra = todo[k]
        if quota.get(label, 0) > 0 and (label != "exhaustive-6" or g == "single"):
            quota[label] -= 1
            todo.append((g, s, hist, label + "+warnings-error", dict(extra, env="warnings-error")))
    for _, _, _, label, _ in todo:
        streams[label] = streams.get(label, 0) + 1
    # two threads asking for the same entry (oracle only)
    pairs = [(g, graphs[g], pair, STYLES[k % len(STYLES)] if k % 3 == 0 else "direct")
             for k, (g, pair) in enumerate(pair_scenarios(ctx, graphs))]
    streams["two-threads-one-entry"] = len(pairs)
    return todo, streams, pairs


def run(ctx):
    import multiprocessing
    import labrea  # noqa: F401  (fail early if the tree under test does not import)
    graphs = dict(GRAPHS)
    jobs = 12
    # (the worker processes are forked BEFORE the scenarios are generated: they do not carry a copy of the whole list)
    pool = multiprocessing.get_context("fork").Pool(jobs)
    try:
        return _run(ctx, graphs, pool, jobs)
    finally:
        pool.terminate()
        pool.join()


def _run(ctx, graphs, pool, jobs):
    todo, streams, pairs = build_todo(ctx, graphs)

    # --- the model's view of the graphs and of the fixed histories (shared by every batch)
    prelude = []
    gdef = {}
    for i, (g, shape) in enumerate(graphs.items()):
        gdef[g] = f"lv_g{i}"
        prelude.append(f"Definition lv_g{i} := {coq_shape(shape)}.")
    hdef = {}
    for tag, table in (("", FIXED_HISTORIES), ("l", LAB_HISTORIES), ("p", PHASE_HISTORIES)):
        for g, hist in table.items():
            hdef[id(hist)] = f"lv_h{tag}_{g}"
            prelude.append(f"Definition lv_h{tag}_{g} := {coq_hist(hist)}.")
    prelude = "\n".join(prelude)

    # --- batches: implementation side (worker processes; results in generation order), then the model on the same
    # graph / script / history.  The quick tier is ONE batch; the thorough tier keeps only counters, hashes, the lightest
    # oracle failures and the first disagreements between batches.
    bsize = len(todo) if ctx.quick else THOROUGH_BATCH
    viol, stats, refs = [], new_stats(), {}
    n_viol = 0
    distinct, nontrivial = set(), set()
    verdict_of = {}        # hash of a model question -> verdict (identical questions - same scenario behind another backend object - asked once)
    n_cases = n_exprs = n_mism = 0
    mism, samples = [], []
    t_impl = t_model = 0.0

    def trim(vs):
        seen, uniq = set(), []
        for v in vs:
            hh = violation_key(v)
            if hh not in seen:
                seen.add(hh)
                uniq.append(v)
        uniq.sort(key=violation_weight)
        return uniq

    if True:
        presults_async = None
        if pairs:
            psize = max(50, (len(pairs) + 2 * jobs - 1) // (2 * jobs))
            presults_async = pool.map_async(work_pairs, [pairs[k:k + psize] for k in range(0, len(pairs), psize)])
        for bi, b0 in enumerate(range(0, len(todo), max(1, bsize))):
            part = todo[b0:b0 + bsize]
            t0 = time.time()
            size = max(50, (len(part) + 4 * jobs - 1) // (4 * jobs))
            chunks = [[(g, graphs[g], s, h, x) for g, s, h, _, x in part[k:k + size]] for k in range(0, len(part), size)]
            results = pool.map(work, chunks)
            del chunks
            lines, used, applied = [], [], []
            for out, v, st, rf in results:
                lines += [o[0] for o in out]
                used += [o[1] for o in out]
                applied += [o[2] for o in out]
                n_viol += len(v)
                viol += v
                refs.update(rf)
                for k, x in st.items():
                    if isinstance(x, dict):
                        for kk, n in x.items():
                            stats[k][kk] = stats[k].get(kk, 0) + n
                    else:
                        stats[k] += x
            del results
            if not ctx.quick:
                viol = trim(viol)[:KEEP_VIOLATIONS]
            # the adversary handed to the model: the scenario's script; for a persistent adversary the behaviour it
            # actually applied at each backend call of the run (the model's adversary is a function of the call index)
            cases = [(g, (ap if (x.get("phases") or x.get("poison")) else s), h, line, s, x)
                     for (g, s, h, _, x), line, ap in zip(part, lines, applied) if not x.get("oracle_only")]
            for (g, s, h, _, x), u in zip(part, used):
                hh = lib.stable_hash([graphs[g], s, hist_json(h), sorted(x.items())])
                distinct.add(hh)
                if u:
                    nontrivial.add(hh)
            t_impl += time.time() - t0
            t0 = time.time()
            exprs, expr_ix, case_key = [], {}, []
            for g, s, hist, line, _s0, _x in cases:
                hx = hdef.get(id(hist)) or coq_hist(hist)
                impl = "[" + "; ".join(f'"{x}"' for x in line.split("/")) + "]"
                e = f"agree_hist {gdef[g]} {coq_script(s)} {hx} {impl}"
                key = e if ctx.quick else lib.stable_hash(e)
                if key not in verdict_of and key not in expr_ix:
                    expr_ix[key] = len(exprs)
                    exprs.append(e)
                case_key.append(key)
            uverdicts = coq_eval_fallback(ctx, "Cases_C17" if bi == 0 else f"Cases_C17_b{bi}", prelude, exprs) if exprs else []
            for key, i in expr_ix.items():
                verdict_of[key] = uverdicts[i]
            n_exprs += len(exprs)
            del exprs, expr_ix
            verdicts = [verdict_of[key] for key in case_key]
            bad = [k for k, v in enumerate(verdicts) if v != "="]
            n_mism += len(bad)
            n_cases += len(cases)
            if bad and len(mism) < 5:   # the model's full observation for the first few disagreeing scenarios
                take = bad[:5 - len(mism)]
                full = ctx.coq_eval("Diff_C17" if bi == 0 else f"Diff_C17_b{bi}", ["Model.CacheFault", "Model.CacheFaultRun"], prelude,
                                    [f"observe {gdef[cases[k][0]]} {coq_script(cases[k][1])} {coq_hist(cases[k][2])}" for k in take],
                                    shard=5)
                for k, ml in zip(take, full):
                    g, s, hist, line, s0, x = cases[k]
                    mism.append(dict(where="Model/CacheFault.v vs labrea.cache/labrea.dataset behind a scripted Cache subclass",
                                     scenario=dict(graph=g, shape=graphs[g], script=s0, history=hist_json(hist), applied_script=s,
                                                   **{kk: vv for kk, vv in x.items() if vv}),
                                     first_differing_evaluation=int(verdicts[k].split("#")[0]),
                                     impl=line.split("/"), model=ml.split("/")))
            if len(samples) < 4 and cases:
                step = max(1, len(cases) // 4)
                samples += [dict(graph=c[0], shape=graphs[c[0]], script=c[4], history=hist_json(c[2]), observation=c[3],
                                 **{kk: vv for kk, vv in c[5].items() if vv})
                            for c in cases[step // 2::step][:4 - len(samples)]]
            t_model += time.time() - t0
            if not ctx.quick:
                lib.log(f"[C17] batch {bi}: {len(part)} scenarios ({b0 + len(part)}/{len(todo)}), {len(cases)} compared with the model, "
                        f"{n_mism} disagreements, {n_viol} oracle failures so far")
            del cases, lines, used, applied, verdicts, case_key
        pair_lines = []
        if presults_async is not None:
            presults = presults_async.get()
            pair_lines = [x for out, _, _ in presults for x in out]
            for out, v, st in presults:
                n_viol += len(v)
                viol += v
                for k, x in st.items():
                    if isinstance(x, dict):
                        for kk, n in x.items():
                            stats[k][kk] = stats[k].get(kk, 0) + n
                    else:
                        stats[k] += x
    for (g, shape, pair, style), (_line, n_faults) in zip(pairs, pair_lines):
        hh = lib.stable_hash([shape, pair, style])
        distinct.add(hh)
        if n_faults:
            nontrivial.add(hh)
    lib.log(f"[C17] implementation side: {len(todo)} scenarios, {stats['evaluations']} evaluations in {t_impl:.1f}s")
    lib.log(f"[C17] model side: {n_exprs} vm_compute cases ({n_cases} scenarios) in {t_model:.1f}s")
    t0 = time.time()

    # --- the cache-free yardstick itself against the model's refv/ref_runs
    ref_exprs, ref_lines = [], []
    for (g, d, opts), line in sorted(refs.items(), key=lambda kv: repr(kv[0])):
        ref_lines.append((g, d, opts, line))
        ol = "[" + "; ".join(f"({k}, {v})" for k, v in opts) + "]%N"
        ref_exprs.append(f'agree (observe_ref {gdef[g]} {d}%N {ol}) "{line}"')
    ref_model = coq_eval_fallback(ctx, "Ref_C17", prelude, ref_exprs) if ref_exprs else []
    for (g, d, opts, line), ml in zip(ref_lines, ref_model):
        if ml != "=":
            n_mism += 1
            if len(mism) < 5:
                mism.append(dict(where="Model refv/ref_runs vs a fresh graph under labrea.cache.disabled()",
                                 scenario=dict(graph=g, shape=graphs[g], dataset=d, options=[list(kv) for kv in opts]),
                                 impl=line, model=ml))
    lib.log(f"[C17] reference side: {len(ref_exprs)} vm_compute cases in {time.time() - t0:.1f}s")

    n_before = len(viol)
    streams["persistent-node"] = persistent_stream(ctx, viol)
    n_viol += len(viol) - n_before
    viol = trim(viol)
    violations = [dict(v, finding=None) for v in viol[:50]]
    nx = (6, 6, 0, 0) if ctx.quick else EXH_THOROUGH
    return {
        "evaluations": stats["evaluations"],
        "distinct_nontrivial": len(nontrivial),
        "rule": "scenario = (graph, fault script, history of 3-8 evaluations over 2-4 option dictionaries with repeats, "
                "cache-disabled evaluations and a raising body; backend object style direct/delegating; optionally a persistent "
                "per-evaluation behaviour of all exists/get/set calls and payload-loss events); distinct by hash of "
                "(graph shape, script, history, style, phases, payload losses); "
                "non-trivial when at least one non-behave script entry was actually consumed by a backend call",
        "samples": samples,
        "traces_validated_against_impl": n_cases + len(ref_lines),
        "correspondence_mismatches": mism,
        "violations": violations,
        "known": [],
        "distribution": dict(streams=streams, scenarios=n_cases, distinct=len(distinct),
                             reference_questions=len(ref_lines), mismatches=n_mism,
                             oracle_violations=n_viol if not ctx.quick else len(viol), **stats),
        "exhaustive": True,
        "assumptions": [
            "EXHAUSTIVE for: every assignment of {behave, miss, lie-exists, fail-get} to the first N backend calls of the "
            f"fixed histories: N={nx[0]} on graph 'single', N={nx[1]} on 'diamond'"
            + (f", N={nx[2]} on 'chain', N={nx[3]} on 'tri'" if nx[2] else "")
            + ", and every assignment to a window of " + ("4" if ctx.quick else "5")
            + " consecutive calls at several offsets on further graphs; random beyond (streams in distribution)",
            "every option key a graph reads is present in every dictionary (missing options: C04); values are small ints",
            "one backend object per dataset (the fingerprint does not identify the dataset), all sharing the adversary's call counter",
            "backend object styles: the scripted store itself, or a composite Cache that delegates every call to it (one or two "
            "levels; the inner store's CacheGetFailure propagates unchanged, so its .cache names the INNER object), or one that "
            "re-raises the miss as its own; the model does not distinguish them (same observation demanded)",
            "option keys 11/12/14 live inside the LABREA section of the dictionary (LABREA.CACHE.K11, LABREA.K12, LABREA.LOGGING.K14), "
            "next to labrea's own settings; ('p', k) arguments are Options with a default that is never needed",
            "persistent adversaries (every exists/get/set call of an evaluation behaves per a 3-letter phase; payload-loss events "
            "make exists() True and get() fail for the stored entries until they are rewritten) are run on the implementation with a "
            "budget of 40*(dataset evaluations of the cache-free run)+40 backend calls per evaluation: exceeding it is reported as "
            "'did not return'; the model is asked about the call-indexed adversary that the run actually applied",
            "the class of a miss: CacheGetFailure, a user subclass, or a user subclass also deriving from a builtin exception class "
            "(MISS_CLASSES, both base orders for some), on copies of scenarios of the streams above (streams miss-class-*), behind every "
            "backend style and behind a delegating backend that inherits Cache.exists (style getonly: exists = try get; the adversary's "
            "letters then all apply to get calls; oracle only); the model does not distinguish them (same observation demanded)",
            "the backend follows the Cache contract: get returns only what was set for that fingerprint or raises CacheGetFailure; "
            "set/exists never raise (CacheSetFailure / CacheExistsFailure are outside the four behaviours of the property)",
            "fingerprint soundness (equal fingerprints => equal cache-free result) is proved here only for this graph language "
            "(C17_concrete_fingerprint_sound); the general statement is C01/C03",
        ],
        "trusted_base": [
            "ScriptedCache (harness) is the adversary's implementation on the Python side; its four behaviours are "
            "transcribed in Model/CacheFault.v b_exists/b_get/b_set and compared call by call",
            "FrontCache / RewrapCache (harness): delegating Cache subclasses in front of ScriptedCache",
        ],
    }


def replay(ctx, payload):
    v = payload.get("scenario", payload)
    if "script" not in v and payload.get("broken"):
        for b in payload["broken"]:
            if isinstance(b.get("scenario"), dict) and "script" in b["scenario"]:
                v = b["scenario"]
                break
    if v.get("persistent"):
        bad = run_persistent(v["script"], v["history"], v["shape"][0])
        return bool(bad), {"persistent_chain_depth": v["shape"][0], "script": v["script"], "history": v["history"],
                           "model": "not modelled (Model/CacheFault.v has evaluations only)",
                           "oracle_violations": [dict(index=i, op=op, got=g, want=w) for i, op, g, w in bad[:3]]}
    if "script" not in v:
        return True, {"note": "payload names no scenario (a proof obligation or the harness itself broke); re-run ./check C17",
                      "payload": payload}
    shape = [[tuple(a) for a in args] for args in v["shape"]]
    hist = hist_from_json(v["history"])
    script = v["script"]
    gname = v.get("graph", "replayed")
    extra = {"style": v.get("style", "direct"), "phases": v.get("phases"), "poison": v.get("poison"), "env": v.get("env"),
             "miss": v.get("miss")}
    w = World(shape, style=extra["style"], miss=extra["miss"])
    ref = Reference()
    viol = []
    stats = new_stats()
    if v.get("pair"):       # two threads, one entry: the property's oracle only (the model is sequential)
        line, _, alive = run_pair_scenario(w, gname, v["pair"], ref, viol, stats)
        return bool(viol), {"graph": gname, "shape": v["shape"], "backend_style": extra["style"], "two_threads": v["pair"],
                            "impl": line.split("/"), "model": "not modelled (Model/CacheFault.v is sequential)",
                            "a_thread_never_returned": alive,
                            "oracle_violations": [dict(desc=x["desc"], evaluation_index=x["evaluation_index"], got=x["got"], want=x["want"])
                                                  for x in viol[:3]]}
    line, _, applied = run_scenario(w, gname, script, hist, ref, viol, stats, extra)
    if extra["style"] == "getonly":      # the backend inherits Cache.exists: no exists calls in its log, outside the model's call language
        return bool(viol), {"graph": gname, "shape": v["shape"], "script": script, "history": v["history"], "backend_style": "getonly",
                            "miss_class": extra["miss"], "phases": extra["phases"], "poison": extra["poison"], "impl": line.split("/"),
                            "model": "not modelled (no exists calls reach the scripted store)",
                            "oracle_violations": [dict(desc=x["desc"], evaluation_index=x["evaluation_index"], got=x["got"], want=x["want"])
                                                  for x in viol[:3]]}
    mscript = applied if (extra["phases"] or extra["poison"]) else script
    ml = ctx.coq_eval("Replay_C17", ["Model.CacheFault", "Model.CacheFaultRun"], "",
                      [f"observe {coq_shape(shape)} {coq_script(mscript)} {coq_hist(hist)}"])[0]
    detail = {"graph": gname, "shape": v["shape"], "script": script, "history": v["history"],
              "backend_style": extra["style"], "miss_class": extra["miss"], "phases": extra["phases"], "poison": extra["poison"],
              "environment": extra["env"],
              "impl": line.split("/"), "model": ml.split("/"),
              "oracle_violations": [dict(desc=x["desc"], evaluation_index=x["evaluation_index"], got=x["got"], want=x["want"])
                                    for x in viol[:3]]}
    return bool(viol) or ml != line, detail
