"""C03 - keys() is sufficient and present-only; fingerprints depend on nothing else.

Correspondence: Model/Eval.v vs labrea on histories of keys/evaluate/validate/explain operations,
plus Model/Base.v `restrict` vs an independent Python restriction on every (dictionary, key set)
the oracle uses.  Oracle (implementation only, cache disabled, freshly built graphs):
 (1) keys(o) ok  =>  every reported key is present in o (independent dotted lookup);
 (2) evaluate / keys on o restricted to exactly keys(o) give the same outcome / the same keys;
 (3) fingerprint(o) == fingerprint(o2) whenever keys(o2) == keys(o) and o, o2 agree under them
     (o2: never-mentioned keys added, other dictionaries of the pool); then the outcomes agree too;
     fingerprint differs when the value under a reported key is changed;
 (4) fingerprint bytes are identical in fresh processes started with different PYTHONHASHSEED.
Scenario streams: the corpus of repaired defects, random graphs (gen.Gen), a directed family of Maps whose
mapped expression branches on the mapped key (BranchMapGen: correspondence + oracle), and dataset classes
(ClassGen / ClassOracle: oracle only - the Coq core model has no dataset classes).
Failures inside the zone of a recorded finding (model ghost `dirty` = Model.EvalRun.clean_at is
false for that expression and dictionary, and the model agrees with the implementation) are tagged.

Further families (added after seeded changes the families above did not notice):
  * LONG REFERENCE CHAINS (ChainGen): an option whose value reaches its final value through 6..64 template hops
    (K100 = '{K101}', ... - pure aliases, links with literal text, links inside a section, a fork), read by an Option /
    a templated default / a Template / a dataset / a dispatch; dictionaries = the chain with one link changed, cut,
    deleted or redirected at a uniformly drawn position.  The unchanged library copes with about 90 hops at the top
    level (then RecursionError); the model's resolution depth is 40, so chains of up to 36 hops go through the
    correspondence, longer ones are ORACLE ONLY;
  * USER-DEFINED EVALUATABLES (UserGen; labrea.types.Evaluatable is the documented extension point): third-party leaves
    reading one top-level entry whose keys() hands out a set the leaf KEEPS (a plain set, a frozenset, a set subclass,
    one set shared by two leaves through a registry, a fresh set as control) and a user subclass of Option overriding
    keys(); the same leaf object sits in several graphs of one scenario (as a switch / overload / bind / case branch,
    coalesce member, option default, argument, element, under cached / WithOptions / Map / apply / Template) and the
    history alternates between the graphs.  The model sees such a leaf as Option(key) (its functional behaviour; the
    aliasing of the returned set is not expressible), which puts these histories through the correspondence;
  * LIVE HISTORIES (live_failures): clause (1) is also evaluated on every successful keys() operation of every history on
    the long-lived graphs (not only on freshly built copies), so that state carried from one graph / call to another
    is seen.
"""
import json
import os
import subprocess
import sys

import coreprop as cp
import core
import gen
import lib
from core import S, lit
from witnesses import WITNESSES, corpus_for

PID = "C03"
COQ_TARGETS = cp.COQ_TARGETS
KNOWN = ["D19", "D1", "D3", "D4", "D9", "D24", "D26"]
FRESH = [90, 91]          # option names that no generated expression or dictionary mentions


# ---------------------------------------------------------------- independent helpers (scenario JSON)

def lookup(o, key):
    """independent dotted lookup on scenario JSON: ('found', v) | ('absent',) | ('type',)"""
    cur = o
    for s in key:
        if s[0] == "n":
            if not isinstance(cur, dict):
                return ("type",) if not isinstance(cur, list) else ("type",)
            if s[1] not in cur:
                return ("absent",)
            cur = cur[s[1]]
        else:
            if isinstance(cur, dict):
                k = ("i", s[1])
                if k not in cur:
                    return ("absent",)
                cur = cur[k]
            elif isinstance(cur, list):
                if s[1] >= len(cur):
                    return ("absent",)
                cur = cur[s[1]]
            else:
                return ("type",)
    return ("found", cur)


def restrict(o, keys):
    """o restricted to exactly the given dotted keys (a key through a list keeps the whole list)"""
    out = {}
    for key in sorted(keys, key=core.key_order):
        src, dst = o, out
        for i, s in enumerate(key):
            if s[0] != "n" or not isinstance(src, dict) or s[1] not in src:
                break
            v = src[s[1]]
            last = i == len(key) - 1
            nxt_is_idx = (not last) and key[i + 1][0] == "i"
            if last or nxt_is_idx or not isinstance(v, dict):
                if not (isinstance(dst.get(s[1]), dict) and isinstance(v, dict) and not last and not nxt_is_idx):
                    dst[s[1]] = v
                break
            if s[1] in dst and dst[s[1]] is v:
                break                      # an ancestor key already keeps the whole section
            if not isinstance(dst.get(s[1]), dict) or dst.get(s[1]) is src[s[1]]:
                dst[s[1]] = {}
            src, dst = v, dst[s[1]]
    # preserve the insertion order of o (sections' fingerprints are order sensitive)
    def reorder(ref, part):
        if not isinstance(part, dict) or not isinstance(ref, dict) or part is ref:
            return part
        return {k: reorder(ref[k], part[k]) for k in ref if k in part}
    return reorder(o, out)


def parse_keys(line):
    res = cp.split(line)[0]
    if not res.startswith("ok:["):
        return None
    body = res[4:-1]
    return [core.parse_key(t) for t in body.split(",")] if body else []


def scalar_parent(scn, o):
    """D6 zone: some option key of the graph passes through a scalar of this dictionary"""
    for t in list(cp.sub_exprs(scn["exprs"])) + list(cp.sub_exprs(scn["env"])):
        if t and t[0] == "option" and len(t[1]) >= 2:
            for i in range(1, len(t[1])):
                r = lookup(o, t[1][:i])
                if r[0] == "type" or (r[0] == "found" and not isinstance(r[1], (dict, list))):
                    return True
    return False


def model_dirty(ctx, scn, pairs, name):
    """Model.EvalRun.clean_at for (expr idx, dictionary) pairs, through the ghost event of a cache site"""
    if not pairs:
        return []
    exprs = [("cached", 900 + j, scn["exprs"][i]) for j, (i, _) in enumerate(pairs)]
    ops = [("evaluate", j, False, False, o) for j, (_, o) in enumerate(pairs)]
    line = ctx.coq_eval(name, cp.REQ, "", [core.coq_scenario(dict(scn, exprs=exprs, ops=ops))])[0]
    return [cp.is_dirty(l) or "unmod" in l for l in line.split(" ## ")]


# ---------------------------------------------------------------- the oracle

class Oracle:
    def __init__(self, scn):
        self.scn = scn
        self.fails = []          # dict(kind, idx, o, ...)
        self.checks = {"present": 0, "restrict_eval": 0, "restrict_keys": 0, "fp_equal": 0, "fp_differs": 0,
                       "same_keys_same_outcome": 0, "keys_failed": 0}
        self.restrictions = []   # (o, keys, restricted) for the Base.restrict correspondence
        self.fp_cases = []       # (idx, o, hex) for the hash-seed run

    def fresh(self, idx, o, method, raw=False):
        return cp.fresh_eval(self.scn, idx, o, method, raw=raw)

    def fingerprint(self, idx, o):
        import labrea.cache
        _, objs, _, _ = core.run_impl(dict(self.scn, ops=[]), want_objects=True)
        with labrea.cache.disabled():
            return objs[idx].fingerprint(core.py_json(o))

    def run(self, rng, max_pairs=4, first=()):
        """first: (idx, dictionary) pairs of the history that are examined before the shuffled rest"""
        scn = self.scn
        seen = []
        for op in scn["ops"]:
            p = (op[1], op[4])
            if p not in seen:
                seen.append(p)
        rng.shuffle(seen)
        seen = [p for p in first if p in seen] + [p for p in seen if p not in first]
        pool = []
        for op in scn["ops"]:
            if op[4] not in pool:
                pool.append(op[4])
        for idx, o in seen[:max_pairs]:
            kl = self.fresh(idx, o, "keys")
            K = parse_keys(kl)
            if K is None:
                self.checks["keys_failed"] += 1
                continue
            ev, ev_raw = self.fresh(idx, o, "evaluate", raw=True)
            # (1) present-only
            self.checks["present"] += 1
            missing = [core.key_text(k) for k in K if lookup(o, k)[0] != "found"]
            if missing:
                self.fails.append(dict(kind="reported key not present", idx=idx, o=o, keys=kl, absent=missing))
            # (2) restriction
            r = restrict(o, K)
            self.restrictions.append((o, K, r))
            ev2, ev2_raw = self.fresh(idx, r, "evaluate", raw=True)
            self.checks["restrict_eval"] += 1
            if not cp.same_outcome(ev, ev_raw, ev2, ev2_raw):
                self.fails.append(dict(kind="evaluation on the restricted dictionary differs", idx=idx, o=o, restricted=r,
                                       keys=kl, full=cp.outcome(ev), on_restricted=cp.outcome(ev2)))
            kl2 = self.fresh(idx, r, "keys")
            self.checks["restrict_keys"] += 1
            if cp.split(kl2)[0] != cp.split(kl)[0]:
                self.fails.append(dict(kind="keys() on the restricted dictionary differs", idx=idx, o=o, restricted=r,
                                       keys=cp.split(kl)[0], on_restricted=cp.split(kl2)[0]))
            # (3) fingerprints
            try:
                f0 = self.fingerprint(idx, o)
            except Exception as e:          # keys() succeeded, so the fingerprint must exist
                self.fails.append(dict(kind="fingerprint fails although keys() succeeds", idx=idx, o=o, error=repr(e)[:200]))
                continue
            self.fp_cases.append((idx, o, f0.hex()))
            # AllOptions depends on the whole dictionary: with it no key is "never mentioned"
            has_all = any(t and t[0] == "alloptions" for t in list(cp.sub_exprs(scn["exprs"])) + list(cp.sub_exprs(scn["env"])))
            fresh = [] if has_all else [{**o, FRESH[0]: 1}, {FRESH[1]: core.lit("x"), **o}]
            others = fresh + [p for p in pool if p != o]
            for o2 in others:
                K2 = parse_keys(self.fresh(idx, o2, "keys"))
                if K2 is None or set(K2) != set(K):
                    if FRESH[0] in o2 or FRESH[1] in o2:
                        self.fails.append(dict(kind="adding a never-mentioned key changes keys()", idx=idx, o=o, o2=o2))
                    continue
                if any(repr(lookup(o2, k)) != repr(lookup(o, k)) for k in K):   # repr: 0, False and 0.0 are different JSON values
                    continue
                self.checks["fp_equal"] += 1
                f2 = self.fingerprint(idx, o2)
                if f2 != f0:
                    self.fails.append(dict(kind="fingerprints differ although the reported keys and their values agree",
                                           idx=idx, o=o, o2=o2, keys=kl))
                e2, e2_raw = self.fresh(idx, o2, "evaluate", raw=True)
                self.checks["same_keys_same_outcome"] += 1
                if not cp.same_outcome(ev, ev_raw, e2, e2_raw):
                    self.fails.append(dict(kind="same reported keys and values, different outcome", idx=idx, o=o, o2=o2,
                                           keys=kl, a=cp.outcome(ev), b=cp.outcome(e2)))
            for k in (K[:3] + [k for k in K[-2:] if k not in K[:3]]):      # (the first AND the last reported keys)
                o3 = set_path(o, k, 424242)
                if o3 is None:
                    continue
                try:
                    f3 = self.fingerprint(idx, o3)
                except Exception:
                    continue                    # the changed value makes keys() itself fail: nothing to compare
                self.checks["fp_differs"] += 1
                if f3 == f0:
                    self.fails.append(dict(kind="fingerprint unchanged although the value under a reported key differs",
                                           idx=idx, o=o, o2=o3, key=core.key_text(k)))


def set_path(o, key, val):
    """copy of o with the value under a (name-only, present) key replaced"""
    if any(s[0] != "n" for s in key):
        return None
    out = dict(o)
    cur = out
    for s in key[:-1]:
        if not isinstance(cur.get(s[1]), dict):
            return None
        cur[s[1]] = dict(cur[s[1]])
        cur = cur[s[1]]
    if key[-1][1] not in cur or cur[key[-1][1]] == val:
        return None
    cur[key[-1][1]] = val
    return out


# ---------------------------------------------------------------- hash-seed stability

CHILD = r"""
import sys, json
sys.path.insert(0, %(harness)r)
import core, coreprop as cp
from props import c03
cases = json.load(open(%(path)r))
out = []
with c03.user_nodes():
    for scn_repr, idx, o_repr in cases:
        scn = cp.load_scn(scn_repr); o = cp.load_scn(o_repr)
        try:
            out.append(c03.oracle_for(scn).fingerprint(idx, o).hex())
        except Exception as e:
            out.append("ERR:" + type(e).__name__)
print(json.dumps(out))
"""


def hashseed_run(ctx, cases, seeds):
    """cases: [(scn, idx, o, hex)] -> (number compared, failures)"""
    if not cases:
        return 0, []
    path = ctx.scratch.path("fp_cases.json")
    with open(path, "w") as fh:
        json.dump([[cp.dump_scn(s), i, repr(o)] for s, i, o, _ in cases], fh)
    script = CHILD % dict(harness=os.path.join(lib.ROOT, "harness"), path=path)
    fails, n = [], 0
    for sd in seeds:
        env = dict(os.environ, PYTHONHASHSEED=str(sd))
        r = subprocess.run([sys.executable, "-c", script], capture_output=True, text=True, env=env, cwd=lib.ROOT, timeout=600)
        if r.returncode != 0:
            fails.append(dict(kind="fingerprint subprocess failed", seed=sd, stderr=r.stderr[-500:]))
            continue
        got = json.loads(r.stdout.strip().splitlines()[-1])
        for (s, i, o, h), g in zip(cases, got):
            n += 1
            if g != h:
                fails.append(dict(kind="fingerprint differs across processes / hash seeds", seed=sd, idx=i, o=o,
                                  here=h, there=g, scenario_repr=cp.dump_scn(s)))
    return n, fails


# ---------------------------------------------------------------- the check

def generate(ctx, n):
    scns = []
    for i in range(n):
        g = gen.Gen(ctx.rng, with_alloptions=(i % 12 == 0), preset_on_ds=0.3 if i % 2 else 0.0)
        scns.append(g.scenario(n_exprs=2, depth=3, n_ops=8,
                               methods=("keys", "keys", "evaluate", "evaluate", "validate", "explain"), switches=False))
    return scns


# ---- directed family: a Map whose mapped expression branches on the mapped key -------------------
#
# Map(e, {k: values}) evaluates e once per element with k pre-set.  When e chooses a branch from k
# (switch / bind / case-when / overloaded dataset dispatching on Option(k), or Option(k) itself over
# templated values), different elements read different option keys: keys() must be the union over ALL
# elements.  The dictionaries are single-key neighbours (change, delete) of a base dictionary that
# holds every key read by some branch, so that restriction and perturbation reach each branch key.

class BranchMapGen(gen.Gen):
    MAPPED = [gen.K(10), gen.K(gen.SEC, gen.SX)]
    BRANCH = [gen.K(11), gen.K(12), gen.K(gen.SEC, gen.SY), gen.K(*gen.DEEP)]
    VALS = [1, 2, lit("a"), lit("b"), None]

    def branch(self, bk, k):
        """one branch reading the option key bk (sometimes the mapped key too, sometimes nothing)"""
        rng = self.rng
        r = rng.random()
        if r < 0.40:
            return ("option", bk, None, None)
        if r < 0.52:
            return ("option", bk, ("value", ("j", gen.rand_scalar(rng))), None)
        if r < 0.70:
            args = [("option", bk, None, None)]
            if rng.random() < 0.5:
                args.append(("option", k, None, None))
            return ("call", self.newf(("tag",)), args)
        if r < 0.80:
            return ("template", (("lit", "p"), ("ref", bk)), [])
        if r < 0.90:
            d = max(self.env, default=0) + 1
            self.env[d] = dict(fid=self.newf(("tag",)), kwargs=[("option", bk, None, None)])
            return ("dataset", d)
        return ("value", ("j", gen.rand_scalar(rng)))

    def mapped(self, k, vals, bkeys):
        """(expression branching on Option(k), kind): vals[i] selects a branch reading bkeys[i]"""
        rng = self.rng
        disp = ("option", k, None, None)
        table = [(("j", v), self.branch(bk, k)) for v, bk in zip(vals, bkeys)]
        dflt_key = rng.choice(self.BRANCH)
        dflt = self.branch(dflt_key, k) if rng.random() < 0.5 else None
        kind = rng.choice(["switch", "switch", "overload", "overload", "bind", "case", "templ"])
        if kind == "switch":
            return ("switch", disp, table, dflt), kind
        if kind == "bind":
            return ("bind", disp, table, dflt), kind
        if kind == "case":
            cases = [(("fnvalue", self.newf(("eq", v))), b) for v, b in table]
            return ("case", disp, cases, dflt), kind
        if kind == "overload":
            d = max(self.env, default=0) + 1
            self.env[d] = dict(fid=self.newf(("tag",)), kwargs=[("option", dflt_key, None, None)], dispatch=disp,
                               overloads=table)
            if dflt is None and rng.random() < 0.5:
                self.env[d]["abstract"] = True
            return ("dataset", d), kind
        return disp, kind                     # the element values themselves are templates over the branch keys

    def scenario_branchmap(self, n_ops=10):
        rng = self.rng
        k = rng.choice(self.MAPPED)
        nb = rng.randint(2, 3)
        vals = rng.sample(self.VALS, nb)
        bkeys = rng.sample(self.BRANCH, nb) if rng.random() < 0.8 else [rng.choice(self.BRANCH) for _ in range(nb)]
        e, kind = self.mapped(k, vals, bkeys)
        elems = list(vals)
        if kind == "templ":
            elems = [S(("ref", bk)) if rng.random() < 0.7 else S(("lit", "q"), ("ref", bk)) for bk in bkeys]
        if rng.random() < 0.3:
            elems.append(rng.choice(self.VALS))             # a repeated element, or one outside the table
        if rng.random() < 0.5:
            rng.shuffle(elems)
        base = {}
        from_option = kind != "templ" and rng.random() < 0.45     # templated strings inside a list of the options: zone of D1
        if from_option:
            its = [(k, ("option", gen.K(gen.LST), ("value", ("j", elems)) if rng.random() < 0.3 else None, None))]
            base[gen.LST] = list(elems)
        else:
            its = [(k, ("value", ("j", elems)))]
        if rng.random() < 0.3:                              # a second iterated key: the product has more combinations
            k2 = rng.choice([x for x in self.BRANCH + [gen.K(gen.FLAT[2])] if x != k])
            its.append((k2, ("value", ("j", [gen.rand_scalar(rng) for _ in range(rng.randint(1, 2))]))))
            if rng.random() < 0.5:
                its.reverse()
        m = ("map", e, its)
        w = rng.random()
        if w < 0.30:
            root = ("tolist", m)
        elif w < 0.45:
            root = m
        elif w < 0.60:
            root = ("call", self.newf(("tag",)), [("tolist", m)])
        elif w < 0.78:                                       # a dataset built on the Map
            d = max(self.env, default=0) + 1
            self.env[d] = dict(fid=self.newf(("tag",)), kwargs=[("tolist", m)])
            root = ("dataset", d)
        elif w < 0.90:
            c = self.next_c
            self.next_c += 1
            root = ("cached", c, ("tolist", m))
        else:
            root = ("with", rng.random() < 0.5, gen.rand_preset(rng), ("tolist", m))
        # dictionaries: every key some branch reads is present in the base one
        used = sorted({t[1] for t in cp.sub_exprs([e, self.env]) if t and t[0] == "option"} |
                      {t[1] for x in cp.sub_exprs([e, self.env]) if x and x[0] == "template" for t in x[1] if t[0] == "ref"} |
                      set(bkeys), key=core.key_order)
        used = [bk for bk in used if bk != gen.K(gen.LST)]
        for bk in used:
            if bk != k or rng.random() < 0.5:
                base = put_path(base, bk, rng.choice([0, 1, 2, 5, lit("a"), lit("b"), True]))
        if rng.random() < 0.5:
            base[gen.FLAT[2]] = base.get(gen.FLAT[2], gen.rand_scalar(rng))
        pool = [base]
        for bk in used:
            pool.append(put_path(base, bk, rng.choice([7, lit("z")])))
            pool.append(del_path(base, bk))
        if from_option:
            pool.append(put_path(base, gen.K(gen.LST), list(reversed(elems))))
            pool.append(put_path(base, gen.K(gen.LST), elems[:1]))
        pool.append({})
        items = list(base.items())
        rng.shuffle(items)
        pool.append(dict(items))
        ops = [("keys", 0, False, False, base), ("evaluate", 0, False, False, base)]
        methods = ("keys", "keys", "evaluate", "evaluate", "validate", "explain")
        for _ in range(n_ops - 2):
            ops.append((rng.choice(methods), 0, False, False, rng.choice(pool)))
        return dict(ftable=dict(self.ftable), env=dict(self.env), exprs=[root], ops=ops)


def put_path(o, key, val):
    """copy of o with val stored under a name-only dotted key (sections created as needed)"""
    out = dict(o)
    cur = out
    for s in key[:-1]:
        cur[s[1]] = dict(cur[s[1]]) if isinstance(cur.get(s[1]), dict) else {}
        cur = cur[s[1]]
    cur[key[-1][1]] = val
    return out


def del_path(o, key):
    """copy of o without the value under a name-only dotted key"""
    out = dict(o)
    cur = out
    for s in key[:-1]:
        if not isinstance(cur.get(s[1]), dict):
            return out
        cur[s[1]] = dict(cur[s[1]])
        cur = cur[s[1]]
    cur.pop(key[-1][1], None)
    return out


# ---- dataset classes (labrea.datasetclass): ORACLE ONLY, the Coq core model has no dataset classes -------
#
# A class scenario is an ordinary scenario whose expressions are the members, plus `cls_names` (the
# member names, aligned with `exprs`), `cls_base` (how many leading members live on a plain base class)
# and `cls_plain` (members declared without an annotation).  The evaluatable under test is the class:
# keys / fingerprint of the class, outcome = the member values of the instance it evaluates to.
# Member expressions stay outside the zones of the recorded findings (no conditionals, coalesce,
# domains, effects; only leaf keys are read, so no container value with a templated string is returned).

MEMBER_NAMES = ["a", "b", "c", "d", "_p", "_q", "_r_s", "p_", "x__y", "__h", "A", "_"]


class ClassGen(gen.Gen):
    LEAVES = [gen.K(10), gen.K(11), gen.K(12), gen.K(gen.SEC, gen.SX), gen.K(gen.SEC, gen.SY), gen.K(*gen.DEEP),
              gen.K(gen.LST, "i0")]

    def leaf_option(self, depth=0):
        rng = self.rng
        r = rng.random()
        dflt = None
        if r < 0.25:
            dflt = ("value", ("j", gen.rand_scalar(rng)))
        elif r < 0.35 and depth < 2:
            dflt = self.leaf_option(depth + 1)
        return ("option", rng.choice(self.LEAVES), dflt, None)

    def member(self, depth=2):
        rng = self.rng
        r = rng.random()
        if depth <= 0 or r < 0.40:
            return self.leaf_option()
        if r < 0.55:
            return ("call", self.newf(("tag",)), [self.member(depth - 1) for _ in range(rng.randint(1, 2))])
        if r < 0.65:
            d = max(self.env, default=0) + 1
            self.env[d] = dict(fid=self.newf(("tag",)), kwargs=[self.leaf_option() for _ in range(rng.randint(0, 2))])
            return ("dataset", d)
        if r < 0.75:
            return ("with", rng.random() < 0.5, gen.rand_preset(rng), self.member(depth - 1))
        if r < 0.83:
            return ("template", (("lit", "p"), ("ref", rng.choice(self.LEAVES[:6]))), [])
        if r < 0.90:
            return ("list", [self.member(depth - 1) for _ in range(rng.randint(0, 2))])
        return ("value", ("j", gen.rand_scalar(rng)))

    def scenario_class(self, n_ops=8):
        rng = self.rng
        n = rng.randint(2, 5)
        names = rng.sample(MEMBER_NAMES, n)
        exprs = [self.member() for _ in names]
        # a dictionary holding every leaf key, its single-key neighbours, and the usual adversarial pool
        full = {gen.LST: [gen.rand_scalar(rng), gen.rand_scalar(rng)]}
        for lk in self.LEAVES[:6]:
            full = put_path(full, lk, rng.choice([0, 1, 2, 5, lit("a"), lit("b"), True, None]))
        pool = [full]
        for lk in rng.sample(self.LEAVES[:6], 3):
            pool.append(put_path(full, lk, rng.choice([7, lit("z")])))
            pool.append(del_path(full, lk))
        pool += self.dict_pool()
        ops = [("keys", 0, False, False, full)]
        ops += [(rng.choice(("keys", "evaluate")), 0, False, False, dict(rng.choice(pool))) for _ in range(n_ops - 1)]
        return dict(ftable=dict(self.ftable), env=dict(self.env), exprs=exprs, ops=ops, cls_names=names,
                    cls_base=rng.choice([0, 0, 1]), cls_plain=[nm for nm in names if rng.random() < 0.2])


def build_class(scn):
    """the dataset class of a class scenario, from freshly built member evaluatables"""
    import labrea
    _, objs, _, _ = core.run_impl(dict(scn, ops=[]), want_objects=True)
    names, nb, plain = scn["cls_names"], scn.get("cls_base", 0), scn.get("cls_plain", [])
    members = list(zip(names, objs))

    def body(ms):
        ns = {nm: ob for nm, ob in ms}
        ns["__annotations__"] = {nm: object for nm, _ in ms if nm not in plain}
        return ns
    bases = (type("Base", (), body(members[:nb])),) if nb else ()
    return labrea.datasetclass(type("Record", bases, body(members[nb:])))


def class_eval(scn, o, method):
    """(observation line, raw) in the format of core.run_impl for keys / evaluate of the class"""
    import labrea.cache
    from labrea.types import Evaluatable
    cls = build_class(scn)
    po = core.py_json(o)
    raw = None
    try:
        with labrea.cache.disabled():
            if method == "keys":
                r = "ok:" + core.show_keys(cls.keys(po))
            else:
                inst = cls.evaluate(po)
                vals = [getattr(inst, nm) for nm in scn["cls_names"]]
                raw = [("<member not evaluated>" if isinstance(v, Evaluatable) else core.force(v)) for v in vals]
                r = "ok:" + core.show(raw)
    except RecursionError:
        r = "err:fuel:F"
    except Exception as exc:  # noqa
        c, ee = core.classify(exc)
        r = f"err:{c}:{'T' if ee else 'F'}"
    return core.canon_names(r + "|"), raw


class ClassOracle(Oracle):
    """the same clauses, the evaluatable being the dataset class (idx is ignored)"""

    def fresh(self, idx, o, method, raw=False):
        line, rawv = class_eval(self.scn, o, method)
        return (line, rawv) if raw else line

    def fingerprint(self, idx, o):
        import labrea.cache
        cls = build_class(self.scn)
        with labrea.cache.disabled():
            return cls.fingerprint(core.py_json(o))


# ---- long reference chains ------------------------------------------------------------------------------------
#
# evaluate() follows a chain of templated option values to its end (confectioner's resolve), so keys() has to report every
# link, however long the chain is (within what the unchanged library can follow at all: about 90 hops at the top level,
# see the module docstring).  CH.. are atoms nothing else uses; the dictionaries are neighbours of the complete chain in
# which ONE link, at a uniformly drawn position, is changed / cut short / deleted / redirected.

CH = 100            # the links are the option names K100, K101, ...
CSEC = 99           # ... or live inside the section K99
MODEL_HOPS = 36     # Model/EvalRun.v default_fuel = 40: longer chains are outside what the model resolves


class ChainGen(gen.Gen):
    def scenario_chain(self, hops, n_ops=8):
        rng = self.rng
        n = hops
        sect = rng.random() < 0.25
        link = (lambda i: gen.K(CSEC, CH + i)) if sect else (lambda i: gen.K(CH + i))
        style = rng.choice(["alias", "alias", "text", "mixed"])

        def linkval(i, to=None):
            ref = ("ref", link(i + 1 if to is None else to))
            if style == "alias" or (style == "mixed" and rng.random() < 0.7):
                return S(ref)
            return S(ref, ("lit", rng.choice("ab/"))) if rng.random() < 0.5 else S(("lit", rng.choice("ab/")), ref)
        last = rng.choice([1, 2, lit("x"), lit("b"), None, True])
        vals = [linkval(i) for i in range(n)] + [last]
        fork = None
        if n >= 4 and rng.random() < 0.2:      # one link refers to a second, short chain as well (two references in one value)
            at, m = rng.randrange(n), rng.randint(1, 4)
            fork = (at, m)
            vals[at] = S(*(vals[at].toks + (("ref", gen.K(CH + 500)),)))

        def full():
            flat = {CH + i: v for i, v in enumerate(vals)}
            o = {CSEC: flat} if sect else dict(flat)
            if fork:
                for t in range(fork[1]):
                    o[CH + 500 + t] = S(("ref", gen.K(CH + 501 + t)))
                o[CH + 500 + fork[1]] = lit("f")
            o[gen.FLAT[1]] = 1
            return o

        def edit(i, v, delete=False):
            o = full()
            d = dict(o[CSEC]) if sect else o
            if delete:
                d.pop(CH + i, None)
            else:
                d[CH + i] = v
            if sect:
                o[CSEC] = d
            return o
        base = full()
        entry = ("option", link(0), None, None)
        w = rng.random()
        if w < 0.30:
            root = entry
        elif w < 0.42:       # the chain starts in the (templated) default of another option
            root = ("option", gen.K(gen.FLAT[0]), ("template", (("ref", link(0)),), []), None)
        elif w < 0.54:
            root = ("template", (("lit", "p"), ("ref", link(0))), [])
        elif w < 0.70:
            self.env[1] = dict(fid=self.newf(("tag",)), kwargs=[entry] + ([("option", gen.K(gen.FLAT[1]), ("value", ("j", 0)), None)] if rng.random() < 0.4 else []))
            root = ("dataset", 1)
        elif w < 0.80:       # the value at the end of the chain selects a branch
            root = ("switch", entry, [(("j", last), ("option", gen.K(gen.FLAT[1]), ("value", ("j", 0)), None))], ("value", ("j", lit("dflt"))))
        elif w < 0.88:
            root = ("call", self.newf(("tag",)), [entry, ("option", gen.K(gen.FLAT[1]), ("value", ("j", 0)), None)])
        elif w < 0.94:
            root = ("cached", 50, entry)
        else:
            root = ("list", [entry, ("option", link(n // 2), None, None)])
        pos = lambda: rng.randrange(n + 1)
        pool = [base,
                edit(n, rng.choice([7, lit("z"), lit("y")])),                       # another final value
                edit(pos(), rng.choice([7, lit("z")])),                             # the chain cut short by a constant
                edit(pos(), None, delete=True),                                     # a link missing
                {**base, 92: 1},                                                    # (a name nothing mentions; not the oracle's FRESH names)
                dict(reversed(list(base.items())))]
        i = rng.randrange(n)
        pool.append(edit(i, linkval(i, to=rng.randint(i + 1, n))))                  # a link redirected further down
        if n >= 2:
            pool.append(edit(rng.randint(n // 2, n), rng.choice([0, lit("w")])))    # a change in the far half
        pool.append({})
        ops = [("keys", 0, False, False, base), ("evaluate", 0, False, False, base), ("keys", 0, False, False, pool[1]), ("evaluate", 0, False, False, pool[1])]
        for _ in range(max(0, n_ops - 4)):
            ops.append((rng.choice(("keys", "keys", "evaluate", "evaluate", "validate", "explain")), 0, False, False, rng.choice(pool)))
        scn = dict(ftable=dict(self.ftable), env=dict(self.env), exprs=[root], ops=ops, chain_hops=n)
        if n > MODEL_HOPS:
            scn["oracle_only"] = True
        return scn


def generate_chains(rng, n):
    """hop counts spread over the whole range the library supports"""
    out = []
    for i in range(n):
        lo, hi = [(6, 20), (21, MODEL_HOPS), (MODEL_HOPS + 1, 50), (51, 64)][i % 4]
        out.append(ChainGen(rng).scenario_chain(rng.randint(lo, hi)))
    return out


# ---- user-defined Evaluatables ---------------------------------------------------------------------------------
#
# ("user", uid) is a node of the scenario language that exists in this module only: env["users"][uid] = dict(key=<atom of a
# top-level option name>, container=<how keys() builds its result>).  The Builder keeps ONE object per uid, so the same leaf
# object is shared by every graph of the scenario that mentions it.  Values under the user keys are never templated, so
# the leaf behaves as Option(key) does - which is how the model sees it.

UKEYS = [50, 51, 52]
CONTAINERS = ("set", "set", "frozenset", "subclass", "registry", "fresh", "optsub")
_USER_CLASSES = {}


def user_classes():
    import labrea
    if _USER_CLASSES.get("for") is not labrea:
        from typing import Optional, Set
        from labrea import Option
        from labrea.exceptions import KeyNotFoundError
        from labrea.types import Evaluatable, Options

        class KeySet(set):
            """a third party's own container"""

        class Setting(Evaluatable):
            """a third-party leaf: reads one top-level entry of the options; fulfils the Cacheable contract (only keys
            present in the options, KeyNotFoundError otherwise) and hands out the key set it keeps"""

            def __init__(self, key, stored):
                self.key = key
                self.stored = stored

            def evaluate(self, options: Options):
                if self.key not in options:
                    raise KeyNotFoundError(self.key, self)
                return options[self.key]

            def validate(self, options: Options) -> None:
                if self.key not in options:
                    raise KeyNotFoundError(self.key, self)

            def keys(self, options: Options) -> Set[str]:
                if self.key not in options:
                    raise KeyNotFoundError(self.key, self)
                return {self.key} if self.stored is None else self.stored

            def explain(self, options: Optional[Options] = None) -> Set[str]:
                return {self.key}

            def __repr__(self):
                return f"Setting({self.key!r})"

        class StoredKeysOption(Option):
            """a user subclass of a library class overriding one method: keys() of a value that is present comes from a
            set computed once"""

            def __init__(self, key):
                super().__init__(key)
                self.stored = {key}

            def keys(self, options: Options) -> Set[str]:
                if self.key in options and not isinstance(options[self.key], str):
                    return self.stored
                return super().__labrea_keys__(options)
        _USER_CLASSES.update({"for": labrea, "KeySet": KeySet, "Setting": Setting, "StoredKeysOption": StoredKeysOption})
    return _USER_CLASSES


def user_builder_class(base):
    class UserBuilder(base):
        def __init__(self, world, env):
            super().__init__(world, env)
            self.users = {}
            self.registry = {}      # key -> the one set every "registry" leaf of that key hands out

        def build(self, e):
            if e[0] != "user":
                return super().build(e)
            uid = e[1]
            if uid not in self.users:
                C = user_classes()
                spec = self.env["users"][uid]
                key, how = core.name_of(spec["key"]), spec["container"]
                if how == "optsub":
                    obj = C["StoredKeysOption"](key)
                else:
                    stored = {"set": lambda: {key}, "frozenset": lambda: frozenset({key}), "subclass": lambda: C["KeySet"]({key}),
                              "registry": lambda: self.registry.setdefault(key, {key}), "fresh": lambda: None}[how]()
                    obj = C["Setting"](key, stored)
                self.users[uid] = obj
            return self.users[uid]
    return UserBuilder


def user_printer_class(base):
    class UserPrinter(base):
        def expr(self, e):
            if e[0] == "user":      # its functional behaviour: Option(key) without default
                return f"(EOption {core.coq_key(gen.K(self.env['users'][e[1]]['key']))} None None)"
            return super().expr(e)
    return UserPrinter


class user_nodes:
    """while active, core.run_impl / core.coq_scenario (and everything built on them) know the ("user", uid) node"""

    def __enter__(self):
        self.orig = (core.Builder, core.CoqPrinter)
        core.Builder, core.CoqPrinter = user_builder_class(core.Builder), user_printer_class(core.CoqPrinter)

    def __exit__(self, *a):
        core.Builder, core.CoqPrinter = self.orig


class UserGen(gen.Gen):
    def __init__(self, rng, **kw):
        super().__init__(rng, with_domains=False, with_alloptions=False, **kw)
        self.users = {}
        for uid in range(1, rng.randint(2, 3) + 1):
            self.users[uid] = dict(key=rng.choice(UKEYS), container=rng.choice(CONTAINERS))
        self.p_user = 0.4

    def user(self):
        self.note("user")
        return ("user", self.rng.choice(list(self.users)))

    def leaf(self):
        if self.rng.random() < self.p_user:
            return self.user()
        return super().leaf()

    def option(self, depth=0):
        e = super().option(depth)
        if e[2] is None and e[3] is None and self.rng.random() < 0.15:
            return ("option", e[1], self.user(), None)         # a user leaf as the option's default
        return e

    def dispatching(self):
        """(graph, need): a graph in which a user leaf sits DIRECTLY below a node that consults something else first; `need` =
        the entries (None = absent) under which the leaf is the part that gets consulted"""
        rng = self.rng
        u = self.user
        dk = rng.choice(gen.FLAT)
        disp = ("option", gen.K(dk), ("value", ("j", rng.choice([1, 2]))) if rng.random() < 0.3 else None, None)
        vals = rng.sample([1, 2, lit("a"), None], 2)
        other = lambda: rng.choice([u(), ("value", ("j", gen.rand_scalar(rng))), ("option", gen.K(gen.FLAT[2]), ("value", ("j", 0)), None)])
        kind = rng.choice(["switch", "switch", "overload", "overload", "bind", "case", "coalesce", "default", "with", "map", "cached", "apply",
                           "template", "list", "pipe", "comp"])
        self.note("user_below_" + kind)
        if kind == "switch":
            return ("switch", disp, [(("j", vals[0]), u()), (("j", vals[1]), other())], other() if rng.random() < 0.6 else None), {dk: vals[0]}
        if kind == "overload":
            d = max([k for k in self.env if isinstance(k, int)], default=0) + 1
            self.env[d] = dict(fid=self.newf(("tag",)), kwargs=[other()] if rng.random() < 0.5 else [], dispatch=disp,
                               overloads=[(("j", vals[0]), u()), (("j", vals[1]), other())])
            if rng.random() < 0.3:
                self.env[d]["cache"] = "none"
            return ("dataset", d), {dk: vals[0]}
        if kind == "bind":
            return ("bind", disp, [(("j", vals[0]), u())], other()), {dk: vals[0]}
        if kind == "case":
            return ("case", disp, [(("fnvalue", self.newf(("eq", ("j", vals[0])))), u())], other() if rng.random() < 0.6 else None), {dk: vals[0]}
        if kind == "coalesce":
            return ("coalesce", [("option", gen.K(dk), None, None), u()]), {dk: None}
        if kind == "default":
            return ("option", gen.K(dk), u(), None), {dk: None}
        if kind == "with":
            return ("with", rng.random() < 0.5, {dk: rng.choice([1, 2])}, u()), {}
        if kind == "map":
            return ("tolist", ("map", u(), [(gen.K(dk), ("value", ("j", [1, 2])))])), {}
        if kind == "cached":
            return ("cached", 60, ("call", self.newf(("tag",)), [disp, u()])), {}
        if kind == "apply":
            return ("apply", u(), ("pstep", self.newf(("tag",)), [disp])), {}
        if kind == "template":
            return ("template", (("lit", "p"), ("ref", gen.K(dk)), ("par", 1)), [(1, u())]), {}
        if kind == "list":
            return (rng.choice(["list", "tuple"]), [disp, u(), other()]), {}
        if kind == "pipe":
            return ("apply", disp, ("pstep", self.newf(("tag",)), [u()])), {}
        return ("comp", u(), [("pstep", self.newf(("tag",)), [])]), {}

    def plain(self):
        """an unrelated graph using the same leaf with nothing else around it"""
        rng = self.rng
        u = self.user
        r = rng.random()
        if r < 0.35:
            d = max([k for k in self.env if isinstance(k, int)], default=0) + 1
            self.env[d] = dict(fid=self.newf(("tag",)), kwargs=[u()])
            if rng.random() < 0.3:
                self.env[d]["cache"] = "none"
            return ("dataset", d)
        if r < 0.6:
            return u()
        if r < 0.8:
            return ("call", self.newf(("tag",)), [u()])
        return ("list", [u()])

    def scenario_user(self, n_ops=14):
        """the history alternates: something is asked of a dispatching graph (mostly under a dictionary in which the shared leaf
        is what gets consulted), then keys() of an unrelated graph under a dictionary holding nothing but what the leaves read"""
        rng = self.rng
        roots, needs, plains = [], {}, []
        for _ in range(rng.randint(1, 2)):
            e, need = self.dispatching()
            needs[len(roots)] = need
            roots.append(e)
        for _ in range(rng.randint(1, 2)):
            plains.append(len(roots))
            roots.append(self.plain())
        if rng.random() < 0.4:
            roots.append(self.expr(2, root=True))
        uvals = [0, 1, 2, 5, True, None, lit("a"), lit("b"), [1, 2]]
        only_users = {spec["key"]: rng.choice(uvals) for spec in self.users.values()}      # nothing but what the leaves read
        rich = dict(only_users)
        for k in gen.FLAT:
            rich[k] = rng.choice([1, 2, lit("a")])

        def under(need):
            o = dict(rich)
            for k, v in need.items():
                if v is None:
                    o.pop(k, None)
                else:
                    o[k] = v
            return o
        pool = [rich, only_users, {**rich, rng.choice(sorted(only_users)): rng.choice(uvals)}, {k: v for k, v in rich.items() if k not in only_users}]
        pool += [{**o, **only_users} for o in self.dict_pool()[:3]]
        ops = [("keys", rng.choice(plains), False, False, dict(only_users))]
        while len(ops) < n_ops:
            r = rng.random()
            if r < 0.7:
                i = rng.choice(sorted(needs))
                o = under(needs[i]) if rng.random() < 0.8 else dict(rng.choice(pool))
                ops.append((rng.choice(("keys", "keys", "evaluate", "evaluate", "validate", "explain")), i, False, False, o))
                lean = dict(only_users)
                if rng.random() < 0.3:      # ... plus an entry neither graph's dispatch reads
                    lean[92] = 1
                ops.append(("keys" if rng.random() < 0.8 else "evaluate", rng.choice(plains), False, False, lean))
            else:
                ops.append((rng.choice(("keys", "evaluate", "validate", "explain")), rng.randrange(len(roots)), False, False, dict(rng.choice(pool))))
        env = dict(self.env)
        env["users"] = dict(self.users)
        return dict(ftable=dict(self.ftable), env=env, exprs=roots, ops=ops[:n_ops + 1], user_kinds=dict(self.kinds))


def generate_users(rng, n):
    return [UserGen(rng, preset_on_ds=0.0).scenario_user() for _ in range(n)]


def live_failures(scn, il):
    """clause (1) on the LONG-LIVED graphs of a history: every key reported by a successful keys() operation is present in
    that operation's dictionary - whatever was asked of this graph, or of any other graph, before"""
    out = []
    for j, (op, line) in enumerate(zip(scn["ops"], il)):
        if op[0] != "keys":
            continue
        K = parse_keys(line)
        if not K:
            continue
        missing = [core.key_text(k) for k in K if lookup(op[4], k)[0] != "found"]
        if missing:
            out.append(dict(kind="reported key not present", idx=op[1], o=op[4], keys=cp.split(line)[0], absent=missing, op_index=j,
                            where="long-lived graph, after the earlier operations of the history"))
    return out


def generate_classes(ctx, n):
    return [ClassGen(ctx.rng).scenario_class() for _ in range(n)]


def oracle_for(scn):
    return ClassOracle(scn) if "cls_names" in scn else Oracle(scn)


def generate_branchmaps(ctx, n):
    return [BranchMapGen(ctx.rng).scenario_branchmap() for _ in range(n)]


def restrict_correspondence(ctx, items):
    """Model/Base.v restrict vs the oracle's Python restrict"""
    if not items:
        return 0, []
    exprs = []
    for o, K, r in items:
        ks = "[" + "; ".join(core.coq_key(k) for k in K) + "]"
        exprs.append(f"show_json (JObj (restrict {core.coq_dict(o)} {ks}))")
    outs = ctx.coq_eval("Restrict_C03", cp.REQ, "", exprs, shard=300)
    mism = []
    for (o, K, r), m in zip(items, outs):
        mine = core.canon_names(core.show(core.py_json(r))).replace(" ", "")
        if mine != m.replace(" ", ""):
            mism.append(dict(where="Model/Base.v restrict vs reference restriction", o=repr(o), keys=[core.key_text(k) for k in K],
                             model=m, reference=mine))
    return len(items), mism


def run(ctx):
    with user_nodes():
        return run_(ctx)


def run_(ctx):
    import random
    n = 700 if ctx.quick else 6000
    corpus = corpus_for(PID)
    branch = generate_branchmaps(ctx, 120 if ctx.quick else 1200)
    old = [s for _, s in corpus] + generate(ctx, n) + branch
    # the later families draw from a generator of their own (seeded by VERIF_SEED as well), so that the streams above stay
    # what they were for every seed
    rng2 = random.Random(f"{ctx.seed}-C03-chains-users")
    chains = generate_chains(rng2, 48 if ctx.quick else 480)
    users = generate_users(rng2, 150 if ctx.quick else 1500)
    long_chains = [s for s in chains if s.get("oracle_only")]
    added = [s for s in chains if not s.get("oracle_only")] + users
    impls, models, mism, stats = cp.correspondence(ctx, old + added, "Cases_C03")
    n_core = len(old)
    # dataset classes: oracle only (their members are ordinary expressions, but the class itself is not modelled)
    classes = generate_classes(ctx, 80 if ctx.quick else 800)
    # chains longer than the model's resolution depth: oracle only as well
    long_impls = [core.run_impl(s) for s in long_chains]
    scns = old + classes + added + long_chains
    impls = impls[:n_core] + [None] * len(classes) + impls[n_core:] + long_impls
    models = models[:n_core] + [None] * len(classes) + models[n_core:] + [None] * len(long_chains)
    directed_from = n_core - len(branch)
    violations, distinct, tagged = [], set(), {}
    totals, restr, fpcases, restr_new, fp_new = {"live_present": 0}, [], [], [], []
    for si, (scn, il, ml) in enumerate(zip(scns, impls, models)):
        orc = oracle_for(scn)
        # directed scenarios: the base dictionary (first operation) is always examined
        orc.run(ctx.rng, first=[(scn["ops"][0][1], scn["ops"][0][4])] if si >= directed_from else ())   # (dataset classes too)
        if il is not None:      # clause (1) on the long-lived graphs of the history
            totals["live_present"] += sum(1 for op, l in zip(scn["ops"], il) if op[0] == "keys" and cp.split(l)[0].startswith("ok:"))
            orc.fails = live_failures(scn, il)[:2] + orc.fails
        for k, v in orc.checks.items():
            totals[k] = totals.get(k, 0) + v
        if si >= n_core + len(classes):
            restr_new += orc.restrictions[:4]
            fp_new += [(scn, i, o, h) for i, o, h in orc.fp_cases[:1]]
        else:
            restr += orc.restrictions
            fpcases += [(scn, i, o, h) for i, o, h in orc.fp_cases[:1]]
        if orc.checks["present"]:
            distinct.add(lib.stable_hash(cp.dump_scn(scn)))
        if orc.fails and "cls_names" in scn:      # no model, no recorded finding concerns dataset classes
            for f in orc.fails[:3]:
                violations.append(dict(desc="dataset class: " + f["kind"], detail={k: repr(v)[:600] for k, v in f.items() if k != "kind"},
                                       finding=None, scenario_repr=cp.dump_scn(scn), idx=f["idx"], o_repr=repr(f["o"])))
        elif orc.fails and ml is None:            # outside the model (a chain longer than its resolution depth): nothing to tag with
            for f in orc.fails[:3]:
                violations.append(dict(desc=f"reference chain of {scn.get('chain_hops')} hops: " + f["kind"],
                                       detail={k: repr(v)[:600] for k, v in f.items() if k != "kind"},
                                       finding=None, scenario_repr=cp.dump_scn(scn), idx=f["idx"], o_repr=repr(f["o"])))
        elif orc.fails:
            pairs = []
            for f in orc.fails:
                pairs.append((f["idx"], f["o"]))
                if "o2" in f:
                    pairs.append((f["idx"], f["o2"]))
            dirty = model_dirty(ctx, scn, pairs, f"Zone_C03_{si}")
            dmap = {}
            for (i, o), d in zip(pairs, dirty):
                dmap[(i, repr(o))] = d
            for f in orc.fails[:3]:
                in_zone = dmap.get((f["idx"], repr(f["o"]))) or ("o2" in f and dmap.get((f["idx"], repr(f["o2"]))))
                finding = None
                if in_zone and cp.agrees(il, ml, scn) and f["kind"] not in (
                        "reported key not present", "fingerprints differ although the reported keys and their values agree",
                        "fingerprint unchanged although the value under a reported key differs",
                        "fingerprint fails although keys() succeeds", "adding a never-mentioned key changes keys()"):
                    finding = "D6" if (scalar_parent(scn, f["o"]) or ("o2" in f and scalar_parent(scn, f["o2"]))) else cp.zone_of(scn)
                if finding is None and cp.agrees(il, ml, scn) and cp.in_zone_d26(scn, [f["o"], f.get("o2")]) and f["kind"] in (
                        "evaluation on the restricted dictionary differs", "same reported keys and values, different outcome",
                        "keys() on the restricted dictionary differs"):
                    finding = "D26"
                if finding:
                    tagged[finding] = tagged.get(finding, 0) + 1
                violations.append(dict(desc=f["kind"], detail={k: repr(v)[:600] for k, v in f.items() if k != "kind"},
                                       finding=finding, scenario_repr=cp.dump_scn(scn), idx=f["idx"], o_repr=repr(f["o"])))
    n_restr, rmism = restrict_correspondence(ctx, restr[: (1500 if ctx.quick else 12000)] + restr_new[: (300 if ctx.quick else 3000)])
    seeds = [1, 2, 4242] if ctx.quick else list(range(1, 33))
    n_hs, hs_fails = hashseed_run(ctx, fpcases[: (150 if ctx.quick else 1200)] + fp_new[: (40 if ctx.quick else 400)], seeds)
    for f in hs_fails:
        violations.append(dict(desc=f["kind"], detail={k: repr(v)[:400] for k, v in f.items()}, finding=None,
                               scenario_repr=f.get("scenario_repr"), idx=f.get("idx"), o_repr=repr(f.get("o"))))
    known = []
    for fid in KNOWN:
        w = WITNESSES[fid]
        scn = w["scn"]
        o = scn["ops"][0][4]
        orc = Oracle(dict(scn, exprs=[strip_cache(scn["exprs"][0])]))
        orc.run(ctx.rng)
        known.append(dict(id=fid, still_fails=bool(orc.fails), what=w["what"],
                          observed=[f["kind"] for f in orc.fails][:3]))
    w6 = d6_witness()
    orc = Oracle(w6)
    try:
        orc.run(ctx.rng)
        still6 = bool(orc.fails)
        obs6 = [f["kind"] for f in orc.fails][:3]
    except TypeError as e:                      # keys() raises a raw TypeError on the scalar parent
        still6, obs6 = True, ["raw TypeError from keys()"]
    known.append(dict(id="D6", still_fails=still6 or d6_raw_typeerror(), what="Option('S.X', default) on {'S': 5}: a dotted key through a scalar parent raises TypeError instead of being absent",
                      observed=obs6))
    evals = stats["ops"] + sum(totals.values()) + n_restr + n_hs
    return {
        "evaluations": evals,
        "distinct_nontrivial": len(distinct),
        "rule": "random expression graphs x pools of adversarially perturbed dictionaries; for up to 4 (expression, dictionary) pairs per scenario on "
                "which keys() succeeds: presence of every reported key, restrict-and-re-evaluate (outcome and keys), fingerprint equality under "
                "never-mentioned keys / other pool dictionaries with equal reported keys+values, fingerprint inequality after changing a reported value; "
                "plus a directed family of Maps whose mapped expression branches on the mapped key (switch / bind / case-when / overloaded dataset / "
                "templated element values; dictionaries = single-key neighbours of one holding every branch key), and, for the oracle only, dataset "
                "classes over zone-free member expressions (public, underscore-prefixed, inherited and unannotated members); "
                "reference chains of 6..64 template hops (up to 36 in the correspondence, longer ones oracle only) with one link changed / cut / "
                "deleted / redirected; graphs sharing user-defined Evaluatable leaves whose keys() hands out a stored set / frozenset / set subclass "
                "(histories alternating between a dispatching graph and an unrelated one; presence of every reported key also checked on the "
                "long-lived graphs of every history); "
                "fingerprint bytes re-computed in fresh processes under other PYTHONHASHSEEDs; non-trivial = keys() succeeded on at least one pair; "
                "distinct by scenario hash",
        "samples": [dict(exprs=repr(s["exprs"])[:300], first_ops=[repr(o)[:140] for o in s["ops"][:2]], observed=il[:2])
                    for s, il in list(zip(scns, impls))[:3]],
        "traces_validated_against_impl": stats["ops"] + n_restr,
        "correspondence_mismatches": (mism + rmism)[:5],
        "violations": violations,
        "known": known,
        "distribution": dict(stats, oracle_checks=totals, tagged=tagged, scenarios=len(scns), restrict_cases=n_restr,
                             branching_map_scenarios=len(branch), dataset_class_scenarios_oracle_only=len(classes),
                             reference_chain_scenarios=dict(in_correspondence=len(chains) - len(long_chains), oracle_only=len(long_chains),
                                                            hops=sorted(s["chain_hops"] for s in chains)),
                             user_evaluatable_scenarios=len(users),
                             user_leaf_containers={c: sum(1 for s in users for u in s["env"]["users"].values() if u["container"] == c)
                                                   for c in sorted(set(CONTAINERS))},
                             hashseed_comparisons=n_hs, hashseeds=seeds),
        "exhaustive": False,
        "assumptions": ["user code is deterministic; cyclic template references excluded; floats not generated",
                        "process / hash-seed stability is a runtime fact (CPython json.dumps, set iteration): checked by subprocesses, not proved"],
        "trusted_base": ["confectioner functions and CPython json/str/dict are modelled (Model/Base.v, Model/Template.v), validated by this correspondence run",
                         "json.dumps is assumed injective on (sorted key, value) lists (fingerprint equality = equality of that list)"],
    }


def strip_cache(e):
    return e[2] if e[0] == "cached" else e


def d6_witness():
    from gen import K
    return dict(ftable={}, env={}, exprs=[("option", K(20, 21), ("value", ("j", 1)), None)],
                ops=[("keys", 0, False, False, {20: 5})])


def d6_raw_typeerror():
    from labrea import Option
    try:
        Option("S.X", 1).keys({"S": 5})
    except TypeError:
        return True
    except Exception:
        return False
    return False


def replay(ctx, payload):
    with user_nodes():
        return replay_(ctx, payload)


def replay_(ctx, payload):
    scn = cp.load_scn(payload["scenario_repr"])
    import random
    if "cls_names" in scn:                       # dataset class: oracle only
        orc = ClassOracle(scn)
        orc.run(random.Random(0), max_pairs=50)
        return bool(orc.fails), dict(oracle_failures=[{k: repr(v)[:300] for k, v in f.items()} for f in orc.fails[:5]],
                                     members=list(zip(scn["cls_names"], [repr(e)[:200] for e in scn["exprs"]])))
    il = core.run_impl(scn)
    orc = Oracle(scn)
    orc.run(random.Random(0), max_pairs=50)
    fails = [f for f in live_failures(scn, il) + orc.fails if payload.get("idx") is None or f["idx"] == payload["idx"]]
    if scn.get("oracle_only"):                   # a reference chain longer than the model's resolution depth
        return bool(fails), dict(oracle_failures=[{k: repr(v)[:300] for k, v in f.items()} for f in fails[:5]], impl=il)
    ml = ctx.coq_eval("Replay_C03", cp.REQ, "", [core.coq_scenario(scn)])[0].split(" ## ")
    return bool(fails) or not cp.agrees(il, ml, scn), dict(oracle_failures=[{k: repr(v)[:300] for k, v in f.items()} for f in fails[:5]],
                                                          impl=il, model=[cp.strip_ghost(x) for x in ml])
