"""C07 — overload and interface dispatch: correspondence of Model/Dispatch.v with labrea
(dataset.py / overload.py / conditional.py / interface.py, public API only), the property's own
oracle on the implementation (an independent reference that picks the implementation from its own
copy of the registration history), and the replay of the two known findings (D19, D22).

Scenario = {"impls": {g: {"reads": [[key, default|None], ...], "bad": [key, value]|None}},
            "ops": [...]}  (plain JSON; see `render_op` for the operation forms).
Atoms: option key k <-> "K<k>"; value/alias atom n <-> n (odd) or "v<n>" (even).

A scenario may carry "enc" (how the atoms are realised as Python objects; the Coq term is the same,
the realisation is a bijection on atoms, so the model covers these histories unchanged):
  absent / None : scalars as above (values and aliases alike);
  "tuple"       : EVERY value/alias atom n is the composite (tuple) tv(n) = (pv(n), n % 3): option
                  values, Option defaults, domains and aliases are tuples, any dispatch form;
  "tupleds"     : option values stay scalars, every dispatch is a dataset that BUILDS the composite
                  tv(z) from its option z, and every alias is the tuple tv(a) (only the dataset and
                  the no-dispatch forms occur in such a scenario).
A scenario with "model": False uses dispatch forms the model cannot express (["pair", ...]: a
dispatch dataset combining TWO options into a pair; aliases are pairs [a, b]); it is run through the
implementation and the property's oracle only.

Round-3 families (same Coq terms; the realisation stays a bijection on the atoms):
  * implementation atoms g >= 1000 are TWINS of atom g % 1000: their Python value is the same number in
    another numeric type (float / bool / complex / Fraction / Decimal, `typed`), so the plain values
    ("t", typed(g), ()) of twins compare == while being different values; an implementation descriptor
    with "form": "value" is registered as a labrea Value (the only implementations with an __eq__ of
    their own) wherever the operation hands an Evaluatable over (register, "obj" members).  The oracle
    compares values type-aware (`same_val`), so a re-registration that is dropped, merged or skipped
    because the new implementation "equals" the old one is a violation with a concrete input.
  * "regvia": "overloads" in a scenario: registrations go through the dataset's public `overloads`
    object (Overloaded.register) instead of Dataset.register.
  * the "implement" style and an optional 5th element of "interface" name the public spelling used for
    the definition: the decorators, a class statement with metaclass=Implementation / Interface
    (types.new_class = what a class statement does), or a direct call of the metaclass.

Round-4 family (same Coq terms again: the KIND of mapping a dictionary is handed over as is a representation
of the same key -> value function):
  * an "eval" operation may carry a 5th element, a "with_options" operation a 5th element: the kind of mapping
    the caller's dictionary / the pre-set dictionary is realised as (`MAPPING_KINDS`: OrderedDict, a dict
    subclass, collections.defaultdict with several factories, a dict subclass with __missing__, a
    collections.ChainMap spread over several maps (with shadowed entries below), a UserDict, a user
    collections.abc.Mapping).  Options is `Mapping[str, JSON]`: the implementation a dispatch selects must not
    depend on the kind.  Kinds the UNCHANGED library does not accept at the top level of a dataset call are left
    out (types.MappingProxyType: confectioner.mix cannot copy it and raises MixError)."""
import collections
import collections.abc
import copy
import types as pytypes
from decimal import Decimal
from fractions import Fraction

import lib

PID = "C07"
COQ_TARGETS = ["Model/DispatchRun.vo"]
FUEL = 14
REQUIRES = ["Model.Dispatch", "Model.DispatchRun"]
PRELUDE = "Local Open Scope N_scope."


# ----------------------------------------------------------------------------- atoms

def pv(n):
    return n if n % 2 else f"v{n}"


def tv(n):
    """the composite (tuple) realisation of atom n"""
    return (pv(n), n % 3)


def atom(x):
    if isinstance(x, bool):
        return -1
    if isinstance(x, tuple):
        if len(x) == 2 and not isinstance(x[0], (tuple, bool)):
            n = atom(x[0])
            return n if (n >= 0 and x == tv(n)) else -1
        return -1
    if isinstance(x, int):
        return x
    if isinstance(x, str) and x.startswith("v") and x[1:].isdigit():
        return int(x[1:])
    return -1


def key(k):
    return f"K{k}"


# implementation atoms: g < 1000 is realised as the int g; 1000 * t + n is the twin of n in numeric type t
TWIN_TYPES = {1: float, 2: bool, 3: complex, 4: Fraction, 5: Decimal}


def typed(g):
    t, n = divmod(g, 1000)
    return n if t == 0 else TWIN_TYPES[t](n)


def untyped(x):
    """inverse of `typed` (by the TYPE of the number, not by ==)"""
    if type(x) is int:
        return x
    for t, ty in TWIN_TYPES.items():
        if type(x) is ty:
            return 1000 * t + int(x.real if ty is complex else x)
    return -1


def same_val(a, b):
    """type-aware equality of results: 1, 1.0 and True are three different values"""
    if type(a) is not type(b):
        return False
    if isinstance(a, tuple):
        return len(a) == len(b) and all(same_val(x, y) for x, y in zip(a, b))
    return a == b


def val_enc(enc):
    """atom -> Python object in option-value position"""
    return tv if enc == "tuple" else pv


def alias_enc(enc):
    """atom (or, for the two-option dispatch, a pair of atoms) -> Python object in alias position"""
    one = tv if enc in ("tuple", "tupleds") else pv

    def f(a):
        if isinstance(a, (list, tuple)):
            return tuple(pv(x) for x in a)
        return one(a)
    return f


def akey(a):
    """hashable form of a scenario alias (pairs arrive as JSON lists)"""
    return tuple(a) if isinstance(a, list) else a


# ----------------------------------------------------------------------------- kinds of mappings (round 4)

class OptsDict(dict):
    """a dict subclass without behaviour of its own"""


class MissingDict(dict):
    """a dict subclass whose lookups of absent keys have a side effect (inserts and returns a fresh section)"""

    def __missing__(self, k):
        self[k] = {}
        return self[k]


class MissingZero(dict):
    """a dict subclass that answers 0 for absent keys (no insertion)"""

    def __missing__(self, k):
        return 0


class FrozenOptions(collections.abc.Mapping):
    """a minimal read-only user Mapping (not a dict subclass)"""

    def __init__(self, data):
        self._data = dict(data)

    def __getitem__(self, k):
        return self._data[k]

    def __iter__(self):
        return iter(self._data)

    def __len__(self):
        return len(self._data)


def _none():
    return None


def _chain(d, shadow):
    ks = sorted(d)
    n = 3 if len(ks) >= 3 else 2
    maps = [{k: d[k] for k in ks[i::n]} for i in range(n)]
    if shadow:       # lower maps also hold OTHER values for the keys an upper map defines: the upper one counts
        for i in range(1, n):
            for j in range(i):
                for k in maps[j]:
                    maps[i][k] = ("shadowed", i)
    return collections.ChainMap(*maps)


MAPPING_KINDS = {
    "ordered": lambda d: collections.OrderedDict((k, d[k]) for k in sorted(d, reverse=True)),
    "subclass": OptsDict,
    "ddict": lambda d: collections.defaultdict(dict, d),
    "dint": lambda d: collections.defaultdict(int, d),
    "dnone": lambda d: collections.defaultdict(_none, d),
    "missing": MissingDict,
    "missing0": MissingZero,
    "chain": lambda d: _chain(d, False),
    "chain_shadow": lambda d: _chain(d, True),
    "userdict": collections.UserDict,
    "mapping": FrozenOptions,
}
KIND_NAMES = sorted(MAPPING_KINDS)
NON_DICT_KINDS = ["chain", "chain_shadow", "userdict", "mapping"]


def realise(kind, d):
    """the plain dictionary d handed over as a mapping of the given kind (None / 'dict': as it is)"""
    if kind in (None, "dict"):
        return d
    return MAPPING_KINDS[kind](d)


def _labrea():
    from labrea import Option, Value, abstractdataset, dataset, implements, interface
    from labrea.interface import Implementation, Interface
    from labrea.application import FunctionApplication
    from labrea.conditional import SwitchError
    from labrea.dataset import Dataset
    from labrea.exceptions import EvaluationError, KeyNotFoundError
    return dict(Option=Option, dataset=dataset, abstractdataset=abstractdataset, interface=interface,
                implements=implements, FunctionApplication=FunctionApplication, SwitchError=SwitchError,
                EvaluationError=EvaluationError, KeyNotFoundError=KeyNotFoundError, Dataset=Dataset,
                Value=Value, Implementation=Implementation, Interface=Interface)


# ----------------------------------------------------------------------------- dispatch forms

def disp_keys(e):
    """the option keys a dispatch form reads"""
    if e[0] == "missing":
        return []
    return [e[1], e[3]] if e[0] == "pair" else [e[1]]


def dispatch_safe(e):
    """Python copy of Model/Dispatch.v dispatch_safe (zone of D19 = not safe)."""
    k = e[0]
    if k in ("key", "keydef", "missing", "pair"):
        return True          # pair: fails only when one of its keys is ABSENT (never on a present value)
    if k == "keydom":
        return e[2] is None or e[2] not in e[3]
    if k == "dataset":
        return e[2] is None or e[2] in e[3] or not e[3]
    raise AssertionError(e)


def ref_dispatch(e, o):
    """dispatch value under the (flat) dictionary o: ('v', alias) or ('f',)"""
    k = e[0]
    if k == "missing":
        return ("v", 0)
    if k == "pair":          # ["pair", k1, d1|None, k2, d2|None]: the pair of the two option values
        v1 = o.get(e[1], e[2])
        v2 = o.get(e[3], e[4])
        return ("f",) if (v1 is None or v2 is None) else ("v", (v1, v2))
    val = o.get(e[1])
    if k == "key":
        return ("v", val) if val is not None else ("f",)
    if k == "keydef":
        return ("v", val if val is not None else e[2])
    if val is None:
        val = e[2]
    if val is None:
        return ("f",)
    if k == "keydom":
        return ("v", val) if val in e[3] else ("f",)
    if k == "dataset":
        return ("f",) if val in e[3] else ("v", val)
    raise AssertionError(e)


# ----------------------------------------------------------------------------- implementation side

class World:
    """Live labrea objects for one scenario, built through the public API only."""

    def __init__(self, L, impls, enc=None, regvia=None):
        self.L = L
        self.impls = {int(g): d for g, d in impls.items()}
        self.enc = enc
        self.regvia = regvia           # None: Dataset.register; "overloads": the dataset's public Overloaded object
        self.val = val_enc(enc)        # atom -> object in option-value position
        self.alias = alias_enc(enc)    # atom -> object in alias position
        self.D = {}
        self.I = {}
        self.labels = {}
        self.keep = []
        self.fobj = {}
        self.events = []
        self.cache_label = {}
        self.counter = 0

    # --- building blocks
    def body(self, g):
        L = self.L
        d = self.impls[g]
        reads = [tuple(r) for r in d["reads"]]
        bad = tuple(d["bad"]) if d.get("bad") else None
        val = self.val
        optsl = [L["Option"](key(k)) if df is None else L["Option"](key(k), val(df)) for k, df in reads]
        events = self.events

        def finish(vals):
            events.append(("body", g))
            pairs = tuple((k, v) for (k, _), v in zip(reads, vals))
            if bad is not None and (bad[0], val(bad[1])) in pairs:
                raise RuntimeError("body raises on this value")
            return ("t", typed(g), pairs)

        if len(reads) == 0:
            def body():
                return finish(())
        elif len(reads) == 1:
            def body(a=optsl[0]):
                return finish((a,))
        elif len(reads) == 2:
            def body(a=optsl[0], b=optsl[1]):
                return finish((a, b))
        else:
            raise AssertionError("at most two reads")
        body.__name__ = f"body{g}_{len(self.keep)}"
        body.__qualname__ = body.__name__
        self.keep.append(body)
        return body

    def plain_value(self, g):
        assert not self.impls[g]["reads"] and not self.impls[g].get("bad")
        return ("t", typed(g), ())

    def callback(self, c):
        events = self.events

        def cb(v):
            events.append(("cb", c))
            return ("cb", c, v)
        self.keep.append(cb)
        return cb

    def effect(self, lab):
        events = self.events

        def eff(v):
            events.append(("miss", lab))
        self.keep.append(eff)
        return eff

    def label(self, obj, lab):
        self.labels[id(obj)] = lab
        self.keep.append(obj)

    def impl_obj(self, i):
        if i[0] == "d":
            return self.D[i[1]]
        g = i[1]
        if g not in self.fobj:
            if self.impls[g].get("form") == "value":     # a plain labrea Value (compares == to the Value of a twin)
                self.fobj[g] = self.L["Value"](self.plain_value(g))
            else:
                self.fobj[g] = self.L["FunctionApplication"].lift(self.body(g))
            self.label(self.fobj[g], f"f{g}")
        return self.fobj[g]

    def pyopts(self, o, kind=None):
        return realise(kind, {key(k): self.val(v) for k, v in o})

    def disp_obj(self, e, allow_str=False):
        L = self.L
        k = e[0]
        pv = self.val
        if self.enc == "tupleds":
            assert k == "dataset", "a 'tupleds' scenario only has dataset dispatches"
        if k == "pair":
            o1 = L["Option"](key(e[1])) if e[2] is None else L["Option"](key(e[1]), pv(e[2]))
            o2 = L["Option"](key(e[3])) if e[4] is None else L["Option"](key(e[3]), pv(e[4]))

            def disp2(x=o1, y=o2):
                return (x, y)
            self.keep.append(disp2)
            return L["dataset"](disp2)
        if k == "key":
            return key(e[1]) if (allow_str and e[2] == "str") else L["Option"](key(e[1]))
        if k == "keydef":
            return L["Option"](key(e[1]), pv(e[2]))
        if k == "keydom":
            dom = [pv(x) for x in e[3]]
            return L["Option"](key(e[1]), domain=dom) if e[2] is None else L["Option"](key(e[1]), pv(e[2]), domain=dom)
        if k == "dataset":
            bad = [pv(x) for x in e[3]]
            opt = L["Option"](key(e[1])) if e[2] is None else L["Option"](key(e[1]), pv(e[2]))

            composite = self.enc == "tupleds"

            def disp(z=opt):
                if z in bad:
                    raise RuntimeError("dispatch dataset raises on this value")
                return (z, atom(z) % 3) if composite else z     # = tv(atom(z)): the composite dispatch value
            self.keep.append(disp)
            return L["dataset"](disp)
        raise AssertionError(e)

    def register_ds(self, d, obj, fresh_effect=True):
        self.D[d] = obj
        self.label(obj, f"d{d}")
        if fresh_effect:
            obj.add_effects(self.effect(d))
            self.cache_label[d] = d

    # --- operations; each returns the observation string of the operation
    def apply(self, op):
        L = self.L
        k = op[0]
        if k == "new":
            _, d, e, dflt, cb = op[:5]
            kw = {}
            if e[0] != "missing":
                kw["dispatch"] = self.disp_obj(e, allow_str=True)
            if cb is not None:
                kw["callback"] = self.callback(cb)
            if dflt is None:
                def stub():
                    pass  # pragma: no cover
                self.keep.append(stub)
                obj = L["abstractdataset"](stub, **kw)
            elif dflt[0] == "f":
                obj = L["dataset"](self.body(dflt[1]), **kw)
            else:
                obj = L["dataset"](self.D[dflt[1]], **kw)
            self.register_ds(d, obj)
            return "ok"
        if k == "register":
            _, d, a, i = op
            if self.regvia == "overloads":
                self.D[d].overloads.register(self.alias(a), self.impl_obj(i))
            else:
                self.D[d].register(self.alias(a), self.impl_obj(i))
            return "ok"
        if k in ("overload", "overload_ds"):
            d, als = op[1], op[2]
            aslist = op[5] if k == "overload" else op[4]
            alias = [self.alias(a) for a in als] if (aslist or len(als) != 1) else self.alias(als[0])
            try:
                deco = self.D[d].overload(alias)
            except ValueError:
                return "rej"
            if k == "overload":
                new = deco(self.body(op[4]))
                self.register_ds(op[3], new)
            else:
                deco(self.D[op[3]])
            return "ok"
        if k == "set_dispatch":
            self.D[op[1]].set_dispatch(self.disp_obj(op[2]))
            return "ok"
        if k == "with_options":
            _, d2, d, p = op[:4]
            obj = self.D[d].with_options(self.pyopts(p, op[4] if len(op) > 4 else None))
            self.register_ds(d2, obj, fresh_effect=False)
            self.cache_label[d2] = self.cache_label[d]
            return "ok"
        if k == "eval":
            return self.show_eval(self.do_eval(op[1], op[2], op[4] if len(op) > 4 else None))
        if k == "interface":
            _, i, e, ms = op[:4]
            istyle = op[4] if len(op) > 4 else None
            ns = {}
            ann = {}
            for n, kind, d, g in ms:
                name = f"m{n}"
                if kind == "abstract":
                    ann[name] = str
                elif kind == "default":
                    ns[name] = self.body(g)
                elif kind == "value":
                    ns[name] = self.plain_value(g)
                elif kind == "existing":
                    ns[name] = staticmethod(self.D[d]) if (n % 2) else self.D[d]
            if ann:
                ns["__annotations__"] = ann
            self.counter += 1
            if istyle == "metaclass":      # class Iface(metaclass=Interface, dispatch=...): <members>
                iface = pytypes.new_class(f"Iface{i}_{self.counter}", (), dict(metaclass=L["Interface"], dispatch=self.disp_obj(e)),
                                          lambda body_ns: body_ns.update(ns))
            elif istyle == "call":
                iface = L["Interface"](f"Iface{i}_{self.counter}", (), dict(ns), self.disp_obj(e))
            else:
                cls = type(f"Iface{i}_{self.counter}", (), ns)
                iface = L["interface"](self.disp_obj(e, allow_str=True))(cls)
            self.I[i] = iface
            self.keep.append(iface)
            for n, kind, d, g in ms:
                obj = getattr(iface, f"m{n}")
                if kind == "existing":
                    assert obj is self.D[d]
                else:
                    self.register_ds(d, obj)
            return "ok"
        if k == "implement":
            _, ifs, als, prov, style = op
            ns = {}
            for n, i, form in prov:
                name = f"m{n}"
                if form == "func":
                    ns[name] = self.body(i[1])
                elif form == "value":
                    ns[name] = self.plain_value(i[1])
                elif form == "obj":
                    ns[name] = self.impl_obj(i)
                elif form == "dataset":
                    ns[name] = staticmethod(self.D[i[1]]) if (n % 2) else self.D[i[1]]
            alias = [self.alias(a) for a in als] if (style == "list" or len(als) != 1) else self.alias(als[0])
            self.counter += 1
            cls = type(f"Impl_{self.counter}", (), ns)
            try:
                if style == "metaclass":   # class Impl(metaclass=Implementation, interfaces=(...), aliases=(...)): <members>
                    impl = pytypes.new_class(f"Impl_{self.counter}", (), dict(metaclass=L["Implementation"], interfaces=tuple(self.I[i] for i in ifs),
                                                                               aliases=tuple(self.alias(a) for a in als)),
                                             lambda body_ns: body_ns.update(ns))
                elif style == "call":      # Implementation(name, bases, namespace, interfaces, aliases)
                    impl = L["Implementation"](f"Impl_{self.counter}", (), dict(ns), tuple(self.I[i] for i in ifs),
                                               tuple(self.alias(a) for a in als))
                elif len(ifs) == 1 and style != "implements":
                    impl = self.I[ifs[0]].implementation(alias)(cls)
                else:
                    impl = L["implements"](*[self.I[i] for i in ifs], alias=alias)(cls)
            except TypeError:
                return "rej"
            self.keep.append(impl)
            for n, i, form in prov:
                obj = getattr(impl, f"m{n}")
                if id(obj) not in self.labels:
                    self.label(obj, f"f{i[1]}" if i[0] == "f" else f"d{i[1]}")
            return "ok"
        raise AssertionError(op)

    def do_eval(self, d, o, kind=None):
        start = len(self.events)
        try:
            r = self.D[d].evaluate(self.pyopts(o, kind))
        except Exception as e:  # noqa
            return ("e", self.classify(e))
        miss = ("miss", self.cache_label[d]) in self.events[start:]
        return ("v", r, not miss)

    def classify(self, e):
        L = self.L
        if not isinstance(e, L["EvaluationError"]):
            return "raw" + type(e).__name__
        chain = []
        seen = set()
        while e is not None and id(e) not in seen:
            seen.add(id(e))
            chain.append(e)
            e = e.__cause__ or (None if e.__suppress_context__ else e.__context__)
        if any(isinstance(x, L["SwitchError"]) for x in chain):
            return "switch"
        knf = [x for x in chain if isinstance(x, L["KeyNotFoundError"])]
        if knf:
            k = str(knf[-1].key)
            return "key" + (k[1:] if k.startswith("K") else "?")
        return "other"

    @staticmethod
    def show_val(v):
        if isinstance(v, tuple) and len(v) == 3 and v[0] == "t":
            return f"t{untyped(v[1])}[" + ",".join(f"{k}={atom(x)}" for k, x in v[2]) + "]"
        if isinstance(v, tuple) and len(v) == 3 and v[0] == "cb":
            return f"cb{v[1]}({World.show_val(v[2])})"
        return "?" + type(v).__name__

    def show_eval(self, r):
        if r[0] == "e":
            return "e:" + r[1]
        return "v:" + self.show_val(r[1]) + (":H" if r[2] else ":M")

    def tables(self):
        parts = []
        for d in sorted(self.D):
            obj = self.D[d]
            items = sorted((atom(a), self.labels.get(id(v), "?")) for a, v in obj.overloads.lookup.items())
            parts.append(f"d{d}{'A' if obj.is_abstract else 'D'}[" + ",".join(f"{a}>{l}" for a, l in items) + "]")
        return ",".join(parts)

    def raw_tables(self):
        """identity snapshot of every overloads.lookup (for the all-or-nothing oracle)"""
        return {d: [(repr(a), id(v)) for a, v in obj.overloads.lookup.items()] for d, obj in self.D.items()}


# ----------------------------------------------------------------------------- the reference

class Ref:
    """The property's text, executed on the scenario's own copy of the registration history.
    Independent of labrea and of the Coq model.  Tables are plain dicts; a with_options
    derivative shares its base's table object and cache (as documented for Dataset.overloads /
    Dataset.cache); set_dispatch gives the dataset a copy of the table."""

    def __init__(self, impls, val=pv):
        self.impls = {int(g): d for g, d in impls.items()}
        self.val = val             # how value atoms are realised (only to compare with the implementation's values)
        self.ds = {}
        self.ifs = {}

    def new(self, d, e, dflt, cb):
        self.ds[d] = dict(disp=e, tbl={}, default=dflt, cb=cb, preset={}, cache=d)

    def abstract(self, d):
        return self.ds[d]["default"] is None

    def expect(self, op):
        """what the property's text says about a definition: 'ok' | 'rej' | 'either' (text silent)"""
        k = op[0]
        if k in ("overload", "overload_ds"):
            return "either" if self.ds[op[1]]["disp"][0] == "missing" else "ok"
        if k == "implement":
            _, ifs, als, prov, style = op
            provided = {n for n, i, form in prov}
            names = {}
            for i in ifs:
                for n, d in self.ifs[i]["members"]:
                    names.setdefault(n, []).append(d)
            if any(n not in names for n in provided):
                return "rej"          # names an unknown member
            if any(self.abstract(d) and n not in provided for n, dl in names.items() for d in dl):
                return "rej"          # omits an abstract member
            return "ok"
        return "ok"

    def apply(self, op, accepted=None):
        """perform the operation on the reference's own tables (accepted: what happened to a
        definition; None = decide by `expect`, used by the generator)"""
        k = op[0]
        if accepted is None:
            accepted = self.expect(op) == "ok"
        if not accepted:
            return "rej"
        if k == "new":
            self.new(op[1], op[2], tuple(op[3]) if op[3] else None, op[4])
            return "ok"
        if k == "register":
            self.ds[op[1]]["tbl"][akey(op[2])] = tuple(op[3])
            return "ok"
        if k in ("overload", "overload_ds"):
            d, als = op[1], op[2]
            if k == "overload":
                self.new(op[3], ["missing"], ("f", op[4]), None)
            for a in als:
                self.ds[d]["tbl"][akey(a)] = ("d", op[3])
            return "ok"
        if k == "set_dispatch":
            x = self.ds[op[1]]
            x["disp"] = op[2]
            x["tbl"] = dict(x["tbl"])
            return "ok"
        if k == "with_options":
            b = self.ds[op[2]]
            self.ds[op[1]] = dict(disp=b["disp"], tbl=b["tbl"], default=b["default"], cb=b["cb"],
                                  preset={**b["preset"], **{kk: v for kk, v in op[3]}}, cache=b["cache"])
            return "ok"
        if k == "interface":
            _, i, e, ms = op[:4]
            for n, kind, d, g in ms:
                if kind == "abstract":
                    self.new(d, e, None, None)
                elif kind in ("default", "value"):
                    self.new(d, e, ("f", g), None)
                else:
                    x = self.ds[d]
                    x["disp"] = e
                    x["tbl"] = dict(x["tbl"])
            self.ifs[i] = dict(disp=e, members=[(n, d) for n, kind, d, g in ms])
            return "ok"
        if k == "implement":
            _, ifs, als, prov, style = op
            provided = {n: tuple(i) for n, i, form in prov}
            names = {}
            for i in ifs:
                for n, d in self.ifs[i]["members"]:
                    names.setdefault(n, []).append(d)
            for n, i in provided.items():
                for d in names.get(n, []):
                    for a in als:
                        self.ds[d]["tbl"][akey(a)] = i
            return "ok"
        return None

    def run_impl(self, i, o, nested):
        """(result, resolution chain: the implementations picked on the way down)"""
        if i[0] == "d":
            r, _, _, chain = self.eval(i[1], o, nested)
            return r, (tuple(i),) + chain
        dsc = self.impls[i[1]]
        pairs = []
        for k, df in dsc["reads"]:
            v = o.get(k, df)
            if v is None:
                return ("e",), (tuple(i),)
            pairs.append((k, self.val(v)))
        bad = dsc.get("bad")
        if bad and (bad[0], self.val(bad[1])) in pairs:
            return ("e",), (tuple(i),)
        return ("v", ("t", typed(i[1]), tuple(pairs))), (tuple(i),)

    def eval(self, d, o, nested=None):
        """(('v', value) | ('e',), dispatch outcome, effective options, resolution chain)"""
        x = self.ds[d]
        o2 = {**o, **x["preset"]}
        out = ref_dispatch(x["disp"], o2)
        impl = x["tbl"].get(out[1]) if out[0] == "v" else None
        if impl is None:
            impl = x["default"]
        if impl is None:
            return ("e",), out, o2, ()
        r, chain = self.run_impl(impl, o2, nested)
        if r[0] == "v":
            if x["cb"] is not None:
                r = ("v", ("cb", x["cb"], r[1]))
            if nested is not None:
                nested.append(dict(cache=x["cache"], value=r[1], outcome=out, disp=x["disp"], chain=chain))
        return r, out, o2, chain


# ----------------------------------------------------------------------------- Coq rendering

def c_opt(x, f=str):
    return "None" if x is None else f"(Some {f(x)})"


def c_list(xs, f=str):
    return "[" + "; ".join(f(x) for x in xs) + "]"


def c_pairs(o):
    return c_list(o, lambda p: f"({p[0]}, {p[1]})")


def c_impl(i):
    return f"(IFun {i[1]})" if i[0] == "f" else f"(IDs {i[1]})"


def c_disp(e):
    k = e[0]
    if k == "key":
        return f"(DKey {e[1]})"
    if k == "keydef":
        return f"(DKeyDefault {e[1]} {e[2]})"
    if k == "keydom":
        return f"(DKeyDom {e[1]} {c_opt(e[2])} {c_list(e[3])})"
    if k == "dataset":
        return f"(DDataset {e[1]} {c_opt(e[2])} {c_list(e[3])})"
    return "DMissing"


def member_order(ms):
    """class-dictionary order: explicit members in body order, then the annotation-only ones"""
    return [m for m in ms if m[1] != "abstract"] + [m for m in ms if m[1] == "abstract"]


def render_op(op):
    k = op[0]
    if k == "new":
        return f"ONew {op[1]} {c_disp(op[2])} {c_opt(op[3], c_impl)} {c_opt(op[4])}"
    if k == "register":
        return f"ORegister {op[1]} {op[2]} {c_impl(op[3])}"
    if k == "overload":
        return f"OOverload {op[1]} {c_list(op[2])} {op[3]} {op[4]}"
    if k == "overload_ds":
        return f"OOverloadDs {op[1]} {c_list(op[2])} {op[3]}"
    if k == "set_dispatch":
        return f"OSetDispatch {op[1]} {c_disp(op[2])}"
    if k == "with_options":
        return f"OWithOptions {op[1]} {op[2]} {c_pairs(op[3])}"
    if k == "eval":
        return f"OEval {op[1]} {c_pairs(op[2])}"
    if k == "interface":
        def mk(m):
            n, kind, d, g = m
            if kind == "abstract":
                return f"({n}, MAbstract {d})"
            if kind in ("default", "value"):
                return f"({n}, MDefault {d} {g})"
            return f"({n}, MExisting {d})"
        return f"OInterface {op[1]} {c_disp(op[2])} {c_list(member_order(op[3]), mk)}"
    if k == "implement":
        return (f"OImplement {c_list(op[1])} {c_list(op[2])} "
                + c_list(op[3], lambda p: f"({p[0]}, {c_impl(p[1])})"))
    raise AssertionError(op)


def render_tbl(impls):
    def one(g):
        d = impls[g]
        reads = c_list(d["reads"], lambda r: f"({r[0]}, {c_opt(r[1])})")
        bad = "None" if not d.get("bad") else f"(Some ({d['bad'][0]}, {d['bad'][1]}))"
        return f"({g}, {{| i_reads := {reads}; i_bad := {bad} |}})"
    return c_list(sorted(impls, key=int), one)


def render_scenario(sc, fn="observe"):
    return f"{fn} {render_tbl(sc['impls'])} {FUEL}%nat {c_list(sc['ops'], render_op)}"


# ----------------------------------------------------------------------------- running one scenario

def verify(ref, w, impls, legit, missed, d, o, actual, new_recs, taints, top=True):
    """The property, checked top-down on the value an evaluation returned.  A dataset whose effect
    did not run during this call was served from its cache: its value must be one an earlier
    evaluation computed for that cache under the SAME dispatch outcome.  A dataset that was computed
    now must return callback(outcome of the implementation the reference picks NOW), recursively.
    Returns None or a dict describing the failure (with its zone)."""
    x = ref.ds[d]
    o2 = {**o, **x["preset"]}
    out = ref_dispatch(x["disp"], o2)
    impl = x["tbl"].get(out[1]) if out[0] == "v" else None
    if impl is None:
        impl = x["default"]
    if w.cache_label[d] not in missed:
        recs = [r for r in legit.get(x["cache"], []) if same_val(r["value"], actual)]
        same = [r for r in recs if r["outcome"] == out]
        if not recs and not top:
            return dict(zone=None, dataset=d,
                        desc="computed value is not callback(implementation registered for the current dispatch value / default): "
                             "the dataset the reference picks was neither computed nor holds this value in its cache")
        if not recs:
            return dict(zone=None, dataset=d, desc="a value was served from the cache that no earlier evaluation computed for this dataset")
        if not same:
            if not dispatch_safe(x["disp"]) and any(r["disp"] == x["disp"] for r in recs):
                zone = "D19"
            elif any(r["disp"] != x["disp"] for r in recs):
                zone = "D22"
            else:
                zone = None
            bad = dict(zone=zone, dataset=d, dispatch_now=list(out),
                       dispatch_when_stored=[list(r["outcome"]) for r in recs],
                       desc="a value stored for one dispatch value was returned for another")
            if zone is None:
                return bad
            # inside the zone of a known finding: report it (tagged only if the model agrees) and go
            # on, so that values computed FROM this one are not reported a second time as unexplained
            taints.append(bad)
        return None
    # computed now
    if impl is None:
        return dict(zone=None, dataset=d, desc="an abstract dataset with no applicable implementation returned a value")
    inner = actual
    if x["cb"] is not None:
        if not (isinstance(actual, tuple) and len(actual) == 3 and actual[0] == "cb" and actual[1] == x["cb"]):
            return dict(zone=None, dataset=d, expected_callback=x["cb"],
                        desc="computed value is not callback(implementation registered for the current dispatch value / default): callback missing")
        inner = actual[2]
    elif isinstance(actual, tuple) and actual and actual[0] == "cb" and impl[0] == "f":
        return dict(zone=None, dataset=d, desc="a callback was applied that the dataset does not have")
    if impl[0] == "f":
        exp, _ = ref.run_impl(impl, o2, None)
        if exp[0] != "v" or not same_val(exp[1], inner):
            return dict(zone=None, dataset=d, expected=World.show_val(exp[1]) if exp[0] == "v" else "failure",
                        desc="computed value is not callback(implementation registered for the current dispatch value / default)")
    else:
        bad = verify(ref, w, impls, legit, missed, impl[1], o2, inner, new_recs, taints, top=False)
        if bad is not None:
            return bad
    new_recs.append(dict(cache=x["cache"], value=actual, outcome=out, disp=copy.deepcopy(x["disp"]),
                         chain=ref.eval(d, o)[3]))
    return None


def run_impl(L, sc):
    """implementation observations (one string per op) + the oracle's candidate violations"""
    impls = {int(g): d for g, d in sc["impls"].items()}
    w = World(L, impls, sc.get("enc"), sc.get("regvia"))
    ref = Ref(impls, w.val)
    lines = []
    cands = []   # dicts: op index, desc, zone ('D19'|'D22'|None), detail
    legit = {}   # cache -> list of records (value, outcome, disp)
    stats = dict(evals=0, hits=0, fails=0, rejected=0, regs=0)
    last_tables = None
    for idx, op in enumerate(sc["ops"]):
        k = op[0]
        before = w.raw_tables() if k == "implement" else None
        if k == "eval":
            start = len(w.events)
            got = w.do_eval(op[1], op[2], op[4] if len(op) > 4 else None)
            obs = w.show_eval(got)
            stats["evals"] += 1
            missed = {e[1] for e in w.events[start:] if e[0] == "miss"}
            outcome = ref.eval(op[1], {kk: v for kk, v in op[2]})[1]
            if got[0] == "e":
                stats["fails"] += 1
                exp = ref.eval(op[1], {kk: v for kk, v in op[2]})[0]
                if got[1].startswith("raw"):
                    cands.append(dict(op=idx, zone=None, desc="evaluation raised a non-EvaluationError", got=obs))
                elif exp[0] == "v":
                    cands.append(dict(op=idx, zone=None, got=obs, expected=World.show_val(exp[1]),
                                      desc="evaluation fails although the reference picks an implementation that succeeds"))
            else:
                if got[2]:
                    stats["hits"] += 1
                new_recs, taints = [], []
                bad = verify(ref, w, impls, legit, missed, op[1], {kk: v for kk, v in op[2]}, got[1], new_recs, taints)
                if bad is None:
                    for rec in new_recs:
                        legit.setdefault(rec["cache"], []).append(rec)
                else:
                    cands.append(dict(op=idx, got=obs, **bad))
                for t in taints:
                    cands.append(dict(op=idx, got=obs, **t))
        else:
            expect = ref.expect(op)
            obs = w.apply(op)
            if expect == "either":     # outside the property's text (@overload on a dataset without dispatch):
                expect = obs           # the reference follows the implementation; the model still compares
            ref.apply(op, accepted=(obs == "ok"))
            if k in ("register", "overload", "overload_ds", "implement"):
                stats["regs"] += 1
            if obs == "rej":
                stats["rejected"] += 1
            if obs != expect:
                cands.append(dict(op=idx, zone=None, got=obs, expected=expect,
                                  desc="definition accepted/rejected contrary to the property (an implementation is rejected iff it omits an abstract member or names an unknown one)"))
            if k == "implement":
                after = w.raw_tables()
                if obs == "rej" and after != before:
                    changed = sorted(d for d in after if after[d] != before.get(d))
                    cands.append(dict(op=idx, zone=None, got=obs, changed_tables=changed,
                                      desc="a rejected implementation registered something (overloads.lookup changed)"))
                if obs == "ok":
                    for n, i, form in op[3]:
                        for ii in op[1]:
                            for (mn, d) in ref.ifs[ii]["members"]:
                                if mn != n:
                                    continue
                                lk = w.D[d].overloads.lookup
                                for a in op[2]:
                                    if w.alias(a) not in lk or w.labels.get(id(lk[w.alias(a)])) != (f"f{i[1]}" if i[0] == "f" else f"d{i[1]}"):
                                        cands.append(dict(op=idx, zone=None, member=n, alias=a, dataset=d,
                                                          desc="accepted implementation did not register a provided member under every alias on every interface"))
        if k == "eval":
            lines.append(obs)
            now = w.raw_tables()
            if last_tables is not None and now != last_tables:
                cands.append(dict(op=idx, zone=None, got=obs, desc="an evaluation changed an overload table"))
            last_tables = now
        else:
            lines.append(obs + "|" + w.tables())
            last_tables = w.raw_tables()
        if k == "eval" and len(op) > 3 and op[3] is not None:
            # interface-wide consistency group: (interface id) -> all members resolve by ONE alias
            grp = op[3]
            itf = ref.ifs[grp]
            a_if = ref_dispatch(itf["disp"], {**{kk: v for kk, v in op[2]}, **ref.ds[op[1]]["preset"]})
            if a_if != outcome:
                cands.append(dict(op=idx, zone=None, got=obs,
                                  desc="interface member resolves by another dispatch value than the interface's"))
    return lines, cands, stats


def check_scenarios(ctx, L, scs, name):
    """run implementation + oracle + model on the scenarios; returns per-scenario results"""
    impl = []
    for sc in scs:
        try:
            impl.append(run_impl(L, sc))
        except Exception as e:  # harness/generator problem or an unexpected raw exception
            impl.append((["harness-exception:" + repr(e)], [dict(op=-1, zone=None, desc="unexpected exception while driving the public API: " + repr(e))], dict(evals=0, hits=0, fails=0, rejected=0, regs=0)))
    modelled = [sc for sc in scs if sc.get("model", True)]
    mres = iter(ctx.coq_eval(name, REQUIRES, PRELUDE, [render_scenario(sc) for sc in modelled], shard=40) if modelled else [])
    model = [next(mres) if sc.get("model", True) else None for sc in scs]
    out = []
    for sc, (lines, cands, stats), ml in zip(scs, impl, model):
        mlines = ml.split(";") if ml is not None else None     # None: oracle-only scenario (a form the model cannot express)
        mism = None
        if mlines is not None and mlines != lines:
            first = next((i for i, (a, b) in enumerate(zip(lines, mlines)) if a != b), min(len(lines), len(mlines)))
            mism = dict(where="Model/Dispatch.v vs labrea (overload/dataset/interface)", scenario=sc, first_differing_op=first,
                        op=sc["ops"][first] if first < len(sc["ops"]) else None,
                        impl=lines[first] if first < len(lines) else None,
                        model=mlines[first] if first < len(mlines) else None)
        viols = []
        for c in cands:
            i = c["op"]
            agree = mlines is not None and 0 <= i < len(lines) and i < len(mlines) and lines[i] == mlines[i]
            finding = c["zone"] if (c["zone"] and agree) else None
            viols.append(dict(desc=c["desc"], finding=finding, scenario=sc, op_index=i,
                              detail={k: v for k, v in c.items() if k not in ("desc", "zone", "op")},
                              model_agrees=agree, zone=c["zone"]))
        out.append(dict(lines=lines, model=mlines, mismatch=mism, violations=viols, stats=stats))
    return out


# ----------------------------------------------------------------------------- generators

VALS = [1, 2, 3, 4, 5, 6]
IMPL_SHAPES = [
    dict(reads=[[10, None]], bad=None),
    dict(reads=[[10, None]], bad=None),
    dict(reads=[[10, None], [11, 3]], bad=None),
    dict(reads=[[11, 2]], bad=None),
    dict(reads=[], bad=None),
    dict(reads=[[10, None]], bad=None),
    dict(reads=[[10, 2], [11, 1]], bad=None),
    dict(reads=[[10, None]], bad=[10, 4]),
    dict(reads=[[10, 1], [20, 6]], bad=None),    # reads the dispatch key itself (with a default)
    dict(reads=[[10, None]], bad=None),
    dict(reads=[[20, None]], bad=None),          # ... without one
    dict(reads=[[12, None]], bad=None),          # usually missing
]


PAIR_VALS = [1, 2, 3]


class Gen:
    def __init__(self, rng, zone=None, enc=None, own=False, pair=False, eqval=False, styles=False, optkind=False):
        self.rng = rng
        self.optkind = optkind     # every caller / pre-set dictionary is handed over as some kind of mapping (MAPPING_KINDS)
        self.eqval = eqval         # plain-value implementations that compare == to one another (twins), re-registered under the same alias
        self.styles = styles       # every public spelling of a definition (decorators, metaclass in a class statement, metaclass called)
        self.last_value = {}       # member name -> atom of the plain value some implementation class last provided for it
        self.last_aliases = None   # (interfaces, aliases) of the last implementation class
        self.zone = zone           # None | 'D19' | 'D22'
        self.enc = enc             # None | 'tuple' | 'tupleds' (realisation of the atoms, see the module docstring)
        self.own = own             # interface members declared as datasets that already carry a dispatch of their own
        self.pair = pair           # two-option composite dispatch values (oracle-only)
        self.extra = set()         # option keys some member dispatched on before it was moved into an interface
        self.impls = {}
        self.ops = []
        self.ref = Ref({})
        self.next_ds = 1
        self.next_g = 1
        self.next_cb = 1
        self.next_if = 1
        self.next_name = 101
        self.touched = set()       # caches some evaluation went through
        self.frozen = set()        # datasets that are interface members (no set_dispatch: keeps the interface consistent)
        self.derived = set()

    # --- helpers
    def twin_of(self, g0, value=False):
        """a new implementation atom whose plain value compares == to that of g0 (same number, another numeric type)"""
        n = g0 % 1000
        free = [t for t in [0, 1, 3, 4, 5] + ([2] if n == 1 else []) if 1000 * t + n not in self.impls and 1000 * t + n != g0]
        if not free:
            return None
        g = 1000 * self.rng.choice(free) + n
        d = dict(reads=[], bad=None)
        if value:
            d["form"] = "value"
        self.impls[g] = d
        self.ref.impls[g] = d
        return g

    def plain_atoms(self):
        return sorted(g for g, d in self.impls.items() if not d["reads"] and not d.get("bad"))

    def new_impl(self, plain=False, simple=False, value=False):
        if self.eqval and plain and self.rng.random() < 0.6:
            cand = self.plain_atoms()
            g = self.twin_of(self.rng.choice(cand), value) if cand else None
            if g is not None:
                return g
        g = self.next_g
        self.next_g += 1
        if plain:
            d = dict(reads=[], bad=None)
            if value:
                d["form"] = "value"
        elif simple:
            d = copy.deepcopy(self.rng.choice(IMPL_SHAPES[:4]))
        else:
            d = copy.deepcopy(self.rng.choice(IMPL_SHAPES))
        self.impls[g] = d
        self.ref.impls[g] = d
        return g

    def fresh_ds(self):
        d = self.next_ds
        self.next_ds += 1
        return d

    def emit(self, op):
        self.ops.append(op)
        self.ref.apply(op)

    def gen_disp(self, k=20):
        if self.enc == "tupleds":      # the dispatch dataset builds the composite value from its option
            if self.rng.random() < 0.6:
                return ["dataset", k, None, sorted(self.rng.sample(VALS, self.rng.choice([0, 1, 2])))]
            return ["dataset", k, self.rng.choice(VALS), []]
        if self.pair:
            q = self.rng.random()
            if q < 0.7:
                return ["pair", k, self.rng.choice([None, None] + PAIR_VALS), 22, self.rng.choice([None, None] + PAIR_VALS)]
            if q < 0.85:
                return ["key", k, self.rng.choice(["str", "opt"])]
            return ["keydef", k, self.rng.choice(VALS)]
        r = self.rng.random()
        if self.zone == "D19" and r < 0.8:
            if self.rng.random() < 0.5:
                dom = self.rng.sample(VALS, 3)
                return ["keydom", k, self.rng.choice(dom), sorted(dom)]
            bad = self.rng.sample(VALS, 2)
            return ["dataset", k, self.rng.choice([v for v in VALS if v not in bad]), sorted(bad)]
        if r < 0.45:
            return ["key", k, self.rng.choice(["str", "opt"])]
        if r < 0.65:
            return ["keydef", k, self.rng.choice(VALS)]
        if r < 0.75:
            return ["keydom", k, None, sorted(self.rng.sample(VALS, 4))]
        if r < 0.82:
            dom = sorted(self.rng.sample(VALS, 3))
            return ["keydom", k, self.rng.choice([v for v in VALS if v not in dom]), dom]
        if r < 0.92:
            return ["dataset", k, None, sorted(self.rng.sample(VALS, self.rng.choice([0, 1, 2])))]
        return ["dataset", k, self.rng.choice(VALS), []]

    def reaches(self, src, target_tbl):
        """does evaluating dataset src possibly evaluate a dataset whose table object is target_tbl?"""
        seen = set()
        stack = [src]
        while stack:
            d = stack.pop()
            if d in seen:
                continue
            seen.add(d)
            x = self.ref.ds[d]
            if x["tbl"] is target_tbl:
                return True
            for i in list(x["tbl"].values()) + ([x["default"]] if x["default"] else []):
                if i[0] == "d":
                    stack.append(i[1])
        return False

    def aliases_for(self, e, n):
        """n distinct aliases in the value space of the dispatch form e"""
        if e[0] == "pair":
            return self.rng.sample([[a, b] for a in PAIR_VALS for b in PAIR_VALS], n)
        return self.rng.sample(VALS, n)

    def can_register(self, d, d0):
        return not self.reaches(d0, self.ref.ds[d]["tbl"])

    def options(self, d, want=None):
        """a dictionary for evaluating d: dispatch key registered / unregistered / absent"""
        rng = self.rng
        x = self.ref.ds[d]
        o = {10: rng.choice([1, 2, 3, 3, 2, 1, 4]) if rng.random() < 0.95 else None,
             11: rng.choice([1, 2]) if rng.random() < 0.4 else None,
             12: 1 if rng.random() < 0.15 else None}
        e = x["disp"]
        if e[0] == "pair":
            k1, k2 = e[1], e[3]
            mode = want or rng.choice(["registered", "registered", "unregistered", "absent", "any", "swapped"])
            reg = [a for a in x["tbl"] if isinstance(a, tuple)]
            if mode in ("registered", "swapped") and reg:
                a = rng.choice(reg)
                o[k1], o[k2] = (a[1], a[0]) if mode == "swapped" else a
                if e[2] == o[k1] and rng.random() < 0.5:
                    o[k1] = None          # the Option's own default supplies this component
                if e[4] == o[k2] and rng.random() < 0.5:
                    o[k2] = None
            elif mode == "absent":
                o[k1] = rng.choice([None, rng.choice(PAIR_VALS)])
                o[k2] = None if o[k1] is not None or rng.random() < 0.5 else rng.choice(PAIR_VALS)
            else:
                o[k1], o[k2] = rng.choice(PAIR_VALS + [4]), rng.choice(PAIR_VALS + [4])
        elif e[0] != "missing":
            k = e[1]
            mode = want or rng.choice(["registered", "registered", "unregistered", "absent", "any"])
            reg = [a for a in x["tbl"] if not isinstance(a, tuple)]
            if mode == "registered" and reg:
                o[k] = rng.choice(reg)
            elif mode == "unregistered":
                cand = [v for v in VALS if v not in reg]
                o[k] = rng.choice(cand) if cand else None
            elif mode == "absent":
                o[k] = None
            else:
                o[k] = rng.choice(VALS)
        if rng.random() < 0.15:
            o[21] = rng.choice(VALS)
        for k in sorted(self.extra):       # keys a member dispatched on in its pre-interface life
            if k not in disp_keys(e) and rng.random() < 0.6:
                o[k] = rng.choice(VALS)
        return sorted((k, v) for k, v in o.items() if v is not None)

    def note_eval(self, d, o):
        nested = []
        self.ref.eval(d, {k: v for k, v in o}, nested)
        self.touched.add(self.ref.ds[d]["cache"])
        for r in nested:
            self.touched.add(r["cache"])

    def mapping_kind(self):
        r = self.rng.random()
        if r < 0.5:
            return self.rng.choice(NON_DICT_KINDS)
        if r < 0.9:
            return self.rng.choice([k for k in KIND_NAMES if k not in NON_DICT_KINDS])
        return "dict"

    def eval_op(self, d, o, grp=None):
        if self.optkind:
            self.emit(["eval", d, [list(p) for p in o], grp, self.mapping_kind()])
        else:
            self.emit(["eval", d, [list(p) for p in o], grp])
        self.note_eval(d, o)

    def kind_tail(self):
        """derivatives with pre-set options of datasets that dispatch, and consumers built on them (the caller's
        mapping reaches the dispatch through one or more pre-set layers, at the entry point or below it)"""
        rng = self.rng
        cands = [d for d in self.ref.ds if self.ref.ds[d]["disp"][0] not in ("missing", "pair")] or list(self.ref.ds)
        for _ in range(rng.choice([1, 1, 2])):
            d = rng.choice(cands)
            d2 = self.op_with_options(d)
            self.eval_op(d2, self.options(d2, want="registered"))
            self.eval_op(d2, self.options(d2))
            if rng.random() < 0.6:
                d3 = self.fresh_ds()
                cb = None
                if rng.random() < 0.5:
                    cb = self.next_cb
                    self.next_cb += 1
                self.emit(["new", d3, ["missing"], ["d", d2], cb])      # dataset(<the derivative>): a consumer
                if rng.random() < 0.5:
                    d4 = self.op_with_options(d3)                      # ... itself derived again
                    self.eval_op(d4, self.options(d2, want="registered"))
                self.eval_op(d3, self.options(d2, want="registered"))
                self.eval_op(d3, self.options(d2))

    def probe(self, d):
        """stale-hit probe: same dictionary with the dispatch value changed / removed / restored"""
        rng = self.rng
        x = self.ref.ds[d]
        o = self.options(d)
        self.eval_op(d, o)
        if x["disp"][0] == "missing":
            return
        ks = disp_keys(x["disp"])
        k = ks[0] if len(ks) == 1 else rng.choice(ks)
        base = [p for p in o if p[0] != k]
        variants = []
        for v in rng.sample(VALS, 3):
            variants.append(sorted(base + [(k, v)]))
        variants.append(base)
        variants.append(o)
        rng.shuffle(variants)
        for v in variants[: rng.randint(2, 4)]:
            self.eval_op(d, v)

    # --- operations
    def op_new(self, with_dispatch=True, abstract=None):
        rng = self.rng
        d = self.fresh_ds()
        e = self.gen_disp(rng.choice([20, 20, 21])) if with_dispatch else ["missing"]
        abstract = (rng.random() < 0.2) if abstract is None else abstract
        dflt = None if abstract else ["f", self.new_impl()]
        if dflt and self.ref.ds and rng.random() < 0.1:
            dflt = ["d", rng.choice(list(self.ref.ds))]      # dataset(<an existing Dataset>, dispatch=...)
        cb = None
        if rng.random() < 0.5:
            cb = self.next_cb
            self.next_cb += 1
        self.emit(["new", d, e, dflt, cb])
        return d

    def some_impl(self, d):
        """an implementation to register on d: a lifted function or an existing dataset"""
        rng = self.rng
        if self.eqval and rng.random() < 0.6:
            return ["f", self.new_impl(plain=True, value=True)]     # d.register(alias, Value(...))
        cands = [x for x in self.ref.ds if x != d and self.can_register(d, x)]
        if cands and rng.random() < 0.3:
            return ["d", rng.choice(cands)]
        return ["f", self.new_impl()]

    def options_for_alias(self, d, a):
        """a dictionary under which the dispatch of d reads the value a"""
        o = [p for p in self.options(d) if p[0] not in disp_keys(self.ref.ds[d]["disp"])]
        e = self.ref.ds[d]["disp"]
        if e[0] not in ("missing", "pair"):
            o.append((e[1], a))
        return sorted(o)

    def op_reregister_equal(self, d):
        """register a plain Value under an alias, then (possibly after other operations) ANOTHER Value that
        compares == to it under the same alias; evaluate under that alias: the last registration wins"""
        rng = self.rng
        x = self.ref.ds[d]
        if x["disp"][0] in ("missing", "pair"):
            return
        cur = [a for a, i in x["tbl"].items() if i[0] == "f" and not isinstance(a, tuple) and i[1] in self.plain_atoms()]
        if cur and rng.random() < 0.5:
            a = rng.choice(cur)
            g1 = x["tbl"][a][1]
        else:
            a = rng.choice(VALS)
            g1 = self.new_impl(plain=True, value=True)
            self.emit(["register", d, a, ["f", g1]])
            if rng.random() < 0.3:
                other = rng.choice(VALS)
                self.eval_op(d, self.options_for_alias(d, other))
        for _ in range(rng.choice([1, 1, 2])):
            g2 = self.twin_of(g1, value=True)
            if g2 is None:
                break
            self.emit(["register", d, a, ["f", g2]])
            if rng.random() < 0.8:
                self.eval_op(d, self.options_for_alias(d, a))
            g1 = g2

    def op_register(self, d):
        rng = self.rng
        x = self.ref.ds[d]
        if x["disp"][0] == "pair":
            a = rng.choice([list(t) for t in x["tbl"] if isinstance(t, tuple)] or [[1, 1]]) if (x["tbl"] and rng.random() < 0.35) \
                else self.aliases_for(x["disp"], 1)[0]
        else:
            a = rng.choice(list(x["tbl"]) if (x["tbl"] and rng.random() < 0.35) else VALS)   # re-registration of an alias
            if isinstance(a, tuple):
                a = list(a)
        self.emit(["register", d, a, self.some_impl(d)])

    def op_overload(self, d):
        rng = self.rng
        n = rng.choice([1, 1, 2, 3])
        als = self.aliases_for(self.ref.ds[d]["disp"], n)
        d2 = self.fresh_ds()
        self.emit(["overload", d, als, d2, self.new_impl(), bool(rng.random() < 0.3)])
        if self.ref.ds[d]["disp"][0] == "missing":
            return
        # stacked decorators: the same Dataset under another alias / on another dataset
        if rng.random() < 0.4:
            others = [x for x in self.ref.ds if self.ref.ds[x]["disp"][0] != "missing" and self.can_register(x, d2)]
            if others:
                t = rng.choice(others)
                self.emit(["overload_ds", t, self.aliases_for(self.ref.ds[t]["disp"], rng.choice([1, 2])), d2, bool(rng.random() < 0.3)])

    def op_set_dispatch(self, d):
        self.emit(["set_dispatch", d, self.gen_disp(self.rng.choice([20, 21]))])

    def op_with_options(self, d):
        rng = self.rng
        d2 = self.fresh_ds()
        p = [[30, rng.choice(VALS)]]
        if rng.random() < 0.4:
            p.append([10, rng.choice([1, 2, 3])])
        if rng.random() < 0.25 and self.ref.ds[d]["disp"][0] != "missing":
            p.append([self.ref.ds[d]["disp"][1], rng.choice(VALS)])
        self.emit(["with_options", d2, d, p] + ([self.mapping_kind()] if self.optkind else []))
        self.derived.add(d2)
        self.derived.add(d)
        return d2

    def op_interface(self):
        rng = self.rng
        i = self.next_if
        self.next_if += 1
        e = self.gen_disp(rng.choice([20, 21]))
        ms = []
        kinds = ["abstract"] + [rng.choice(["abstract", "default", "value", "existing", "existing_abs"]) for _ in range(rng.randint(1, 3))]
        rng.shuffle(kinds)
        used = set()
        shared = [n for j in self.ref.ifs for n, _ in self.ref.ifs[j]["members"]]
        for kind in kinds:
            cand = [n for n in shared if n not in used]
            if cand and rng.random() < 0.5:      # a member name another interface has too
                n = rng.choice(cand)
            else:
                n = self.next_name
                self.next_name += 1
            used.add(n)
            if kind in ("existing", "existing_abs"):
                d = self.fresh_ds()
                cb = None
                if rng.random() < 0.6:
                    cb = self.next_cb
                    self.next_cb += 1
                e0 = ["missing"]
                if self.own and rng.random() < 0.75:
                    # a dataset moved into the interface from a life of its own: it already has a
                    # dispatch (another key and/or another form) and possibly registrations
                    e0 = self.gen_disp(rng.choice([20, 21, 23]))
                    self.extra.update(disp_keys(e0))
                self.emit(["new", d, e0, None if kind == "existing_abs" else ["f", self.new_impl()], cb])
                if e0[0] != "missing":
                    for _ in range(rng.choice([0, 0, 1, 2])):
                        if rng.random() < 0.5:
                            self.op_register(d)
                        else:
                            self.op_overload(d)
                ms.append([n, "existing", d, None])
            elif kind == "abstract":
                ms.append([n, "abstract", self.fresh_ds(), None])
            elif kind == "default":
                ms.append([n, "default", self.fresh_ds(), self.new_impl()])
            else:
                ms.append([n, "value", self.fresh_ds(), self.new_impl(plain=True)])
        if self.styles:
            self.emit(["interface", i, e, ms, rng.choice(["decorator", "metaclass", "call"])])
        else:
            self.emit(["interface", i, e, ms])
        for m in ms:
            self.frozen.add(m[2])
        return i

    def op_implement(self, mode=None):
        rng = self.rng
        ifs_all = list(self.ref.ifs)
        ifs = rng.sample(ifs_all, 2) if (len(ifs_all) >= 2 and rng.random() < 0.4) else [rng.choice(ifs_all)]
        names = {}
        for i in ifs:
            for n, d in self.ref.ifs[i]["members"]:
                names.setdefault(n, []).append(d)
        mode = mode or rng.choice(["good", "good", "good", "missing", "unknown"])
        again = None
        if self.eqval and self.last_aliases and set(self.last_aliases[0]) <= set(ifs_all) and rng.random() < 0.6:
            # the same interfaces implemented AGAIN under the same aliases: members given as plain values get twins
            ifs, again = list(self.last_aliases[0]), list(self.last_aliases[1])
            names = {}
            for i in ifs:
                for n, d in self.ref.ifs[i]["members"]:
                    names.setdefault(n, []).append(d)
        prov = []
        for n, dl in names.items():
            abstract = any(self.ref.abstract(d) for d in dl)
            if abstract or rng.random() < 0.5:
                r = rng.random()
                if self.eqval and r < 0.75:
                    g = self.twin_of(self.last_value[n]) if (n in self.last_value and rng.random() < 0.8) else None
                    if g is None:
                        g = self.new_impl(plain=True)
                    self.last_value[n] = g
                    prov.append([n, ["f", g], "value"] if rng.random() < 0.7 else [n, ["f", self.value_form(g)], "obj"])
                elif r < 0.45:
                    prov.append([n, ["f", self.new_impl()], "func"])
                elif r < 0.65:
                    prov.append([n, ["f", self.new_impl(plain=True)], "value"])
                elif r < 0.8:
                    prov.append([n, ["f", self.new_impl()], "obj"])
                else:
                    # must not reach ANY member of the implemented interfaces (all registrations of
                    # this class happen together; checking per name could close a cycle)
                    allm = [d for ds_ in names.values() for d in ds_]
                    cands = [x for x in self.ref.ds if all(self.can_register(d, x) for d in allm)]
                    if cands:
                        prov.append([n, ["d", rng.choice(cands)], "dataset"])
                    else:
                        prov.append([n, ["f", self.new_impl()], "func"])
        if mode == "missing":
            abst = [p for p in prov if any(self.ref.abstract(d) for d in names[p[0]])]
            if abst:
                prov.remove(rng.choice(abst))
        if mode == "unknown":
            prov.append([self.next_name + 50, ["f", self.new_impl()], "func"])
        rng.shuffle(prov)
        als = self.aliases_for(self.ref.ifs[ifs[0]]["disp"], rng.choice([1, 1, 2]))
        if again is not None:
            als = again
        style = rng.choice(["single", "list", "implements"])
        if self.styles:
            style = rng.choice(["single", "list", "implements", "metaclass", "metaclass", "call", "call"])
        self.emit(["implement", ifs, als, prov, style])
        if self.eqval:
            self.last_aliases = (list(ifs), list(als))
            if self.ref.expect(self.ops[-1]) == "ok" and not isinstance(als[0], list) and rng.random() < 0.8:
                a = rng.choice(als)
                for i in ifs:
                    o = self.options_for_alias(self.ref.ifs[i]["members"][0][1], a)
                    for n, d in self.ref.ifs[i]["members"]:
                        self.eval_op(d, o, grp=i)

    def value_form(self, g):
        """mark a plain implementation atom as realised by a labrea Value object (class attribute = Value(...))"""
        self.impls[g]["form"] = "value"
        return g

    def eval_members(self, i):
        itf = self.ref.ifs[i]
        any_d = itf["members"][0][1]
        o = self.options(any_d)
        for n, d in itf["members"]:
            self.eval_op(d, o, grp=i)

    # --- histories
    def overload_history(self, n_ops):
        rng = self.rng
        bases = [self.op_new(with_dispatch=rng.random() < 0.9) for _ in range(rng.randint(1, 3))]
        while len(self.ops) < n_ops:
            d = rng.choice([x for x in self.ref.ds])
            top = rng.choice(bases + [x for x in self.ref.ds if x in self.derived] + bases)
            r = rng.random()
            if self.eqval and rng.random() < 0.3:
                self.op_reregister_equal(rng.choice(bases))
            elif r < 0.12:
                self.op_register(rng.choice(bases))
            elif r < 0.30:
                self.op_overload(rng.choice(bases))
            elif r < 0.36:
                cands = [x for x in bases if x not in self.frozen and
                         (self.zone == "D22" or self.ref.ds[x]["cache"] not in self.touched)]
                if self.pair:
                    # oracle-only histories stay strictly outside the zone of D22 (no model to confirm
                    # the attribution): no set_dispatch on a dataset whose cache a derivative shares
                    cands = [x for x in cands if x not in self.derived]
                if cands:
                    self.op_set_dispatch(rng.choice(cands))
            elif r < 0.43:
                self.op_with_options(rng.choice(bases))
            elif r < 0.47 and len(self.ref.ds) < 12:
                bases.append(self.op_new(with_dispatch=rng.random() < 0.9))
            elif r < 0.75:
                self.eval_op(top, self.options(top))
            elif r < 0.80:
                self.eval_op(d, self.options(d))
            else:
                self.probe(top)

    def interface_history(self, n_ops):
        rng = self.rng
        self.op_interface()
        if rng.random() < 0.5:
            self.op_interface()
        if rng.random() < 0.6:
            self.op_implement(mode="good")
        while len(self.ops) < n_ops:
            r = rng.random()
            i = rng.choice(list(self.ref.ifs))
            if r < 0.30:
                self.op_implement()
            elif r < 0.65:
                self.eval_members(i)
            elif r < 0.75:
                n, d = rng.choice(self.ref.ifs[i]["members"])
                self.probe(d)
            elif r < 0.82:
                n, d = rng.choice(self.ref.ifs[i]["members"])
                if self.eqval and rng.random() < 0.5:
                    self.op_reregister_equal(d)
                else:
                    self.op_register(d)
            elif r < 0.88:
                n, d = rng.choice(self.ref.ifs[i]["members"])
                self.op_overload(d)
            elif r < 0.93:
                n, d = rng.choice(self.ref.ifs[i]["members"])
                d2 = self.op_with_options(d)
                self.eval_op(d2, self.options(d2))
            else:
                b = self.op_new(with_dispatch=True)
                self.op_overload(b)
                self.probe(b)

    def zone22_history(self, n_ops):
        """evaluate, then set_dispatch (+ registrations), then evaluate the same dictionaries again"""
        rng = self.rng
        d = self.op_new(with_dispatch=rng.random() < 0.5, abstract=False)
        if rng.random() < 0.5 and self.ref.ds[d]["disp"][0] != "missing":
            self.op_overload(d)
        seen = []
        for _ in range(rng.randint(1, 4)):
            o = self.options(d)
            seen.append(o)
            self.eval_op(d, o)
        while len(self.ops) < n_ops:
            k = rng.choice([20, 21])
            e = rng.choice([["keydef", k, rng.choice(VALS)], ["keydef", k, rng.choice(VALS)], self.gen_disp(k)])
            self.emit(["set_dispatch", d, e])
            als = [e[2]] if e[0] == "keydef" else rng.sample(VALS, 2)
            self.emit(["overload", d, als, self.fresh_ds(), self.new_impl(simple=True), False])
            for o in seen + [self.options(d)]:
                if rng.random() < 0.8:
                    self.eval_op(d, o)
            seen.append(self.options(d))
            self.eval_op(d, seen[-1])

    def scenario(self):
        sc = dict(impls={str(g): d for g, d in self.impls.items()}, ops=self.ops)
        if self.enc:
            sc["enc"] = self.enc
        if self.pair:
            sc["model"] = False
        if self.eqval and self.rng.random() < 0.3:
            sc["regvia"] = "overloads"
        return sc


def gen_scenario(rng, profile):
    zone = {"zone19": "D19", "zone22": "D22"}.get(profile)
    if profile == "tuple":                 # composite (tuple) values everywhere: options, defaults, domains, aliases
        g = Gen(rng, enc="tuple")
    elif profile == "tupleds":             # scalar options, a dispatch dataset building the composite value, tuple aliases
        g = Gen(rng, enc="tupleds")
    elif profile == "interface_tuple":
        g = Gen(rng, enc=rng.choice(["tuple", "tupleds"]), own=rng.random() < 0.3)
    elif profile == "interface_own":       # members that carry a dispatch of their own into the interface
        g = Gen(rng, enc=rng.choice([None, None, "tuple"]), own=True)
    elif profile in ("pair", "interface_pair"):   # two-option composite dispatch values; oracle-only
        g = Gen(rng, pair=True, own=rng.random() < 0.4)
    elif profile in ("eqval", "interface_eqval"):  # ==-equal plain values re-registered; every spelling of a definition
        g = Gen(rng, eqval=True, styles=rng.random() < 0.5, enc=rng.choice([None, None, "tuple"]))
    elif profile == "interface_meta":             # definitions through the metaclasses (class statement / direct call)
        g = Gen(rng, styles=True, own=rng.random() < 0.3, enc=rng.choice([None, None, "tuple"]))
    elif profile in ("optkind", "interface_optkind"):   # dictionaries handed over as every kind of mapping
        g = Gen(rng, optkind=True, own=rng.random() < 0.3, styles=rng.random() < 0.3, enc=rng.choice([None, None, "tuple"]))
    else:
        g = Gen(rng, zone)
    n = rng.randint(5, 30)
    if profile.startswith("interface"):
        g.interface_history(n)
    elif profile == "zone22" and rng.random() < 0.6:
        g.zone22_history(n)
    else:
        g.overload_history(n)
    if g.optkind:
        g.kind_tail()
    sc = g.scenario()
    sc["profile"] = profile
    return sc


# concrete histories that always run (regressions for the repaired defects and the corners the
# transcription exposed); they also serve as the concrete detection inputs for the reverse patches.
def fixed_scenarios():
    rd = dict(reads=[[10, None]], bad=None)
    out = []
    # D11 (fix b8adbdb): explicit abstract member first in the class dictionary, annotated abstract
    # member after it; an implementation providing only the first is rejected and registers nothing.
    out.append(dict(profile="fixed:D11", impls={"1": rd, "2": rd, "3": rd}, ops=[
        ["new", 1, ["missing"], None, None],
        ["interface", 1, ["key", 20, "str"], [[101, "abstract", 2, None], [102, "existing", 1, None], [103, "default", 3, 3]]],
        ["implement", [1], [5], [[102, ["f", 1], "func"]], "single"],
        ["eval", 1, [[10, 1], [20, 5]], 1],
        ["implement", [1], [5], [[101, ["f", 2], "func"]], "single"],
        ["implement", [1], [5, 6], [[101, ["f", 2], "func"], [102, ["f", 1], "value" if False else "func"]], "list"],
        ["eval", 1, [[10, 1], [20, 5]], 1], ["eval", 2, [[10, 1], [20, 6]], 1], ["eval", 3, [[10, 1], [20, 6]], 1],
    ]))
    # two interfaces sharing the member name 101: one implementation class registers it on both,
    # under every alias; a class naming a member of neither is rejected and changes nothing
    out.append(dict(profile="fixed:multi", impls={"1": rd, "2": rd, "3": rd, "4": dict(reads=[], bad=None), "5": dict(reads=[], bad=None)}, ops=[
        ["interface", 1, ["key", 20, "str"], [[101, "abstract", 1, None], [102, "default", 2, 1]]],
        ["interface", 2, ["key", 21, "opt"], [[101, "abstract", 3, None], [103, "value", 4, 4]]],
        ["implement", [1, 2], [5, 6], [[101, ["f", 2], "func"]], "implements"],
        ["eval", 1, [[10, 1], [20, 5]], 1], ["eval", 3, [[10, 1], [21, 6]], 2], ["eval", 3, [[10, 1], [20, 5]], 2],
        ["eval", 2, [[10, 1], [20, 6]], 1], ["eval", 4, [[21, 5]], 2],
        ["implement", [1, 2], [2], [[101, ["f", 3], "func"], [104, ["f", 3], "func"]], "implements"],
        ["implement", [2, 1], [2], [[101, ["f", 3], "obj"], [103, ["f", 5], "value"]], "implements"],
        ["eval", 1, [[10, 2], [20, 2]], 1], ["eval", 3, [[10, 2], [21, 2]], 2], ["eval", 4, [[21, 2]], 2], ["eval", 4, [[21, 3]], 2],
    ]))
    # D8 (fix 3f28b1e): derivative evaluated before the base, and after it, with a callback
    out.append(dict(profile="fixed:D8", impls={"1": rd, "2": rd}, ops=[
        ["new", 1, ["key", 20, "opt"], ["f", 1], 7],
        ["overload", 1, [5], 2, 2, False],
        ["with_options", 3, 1, [[30, 1]]],
        ["eval", 3, [[10, 1]], None], ["eval", 1, [[10, 1]], None],
        ["eval", 1, [[10, 2], [20, 5]], None], ["eval", 3, [[10, 2], [20, 5]], None],
        ["with_options", 4, 3, [[10, 3]]], ["eval", 4, [[20, 5]], None], ["eval", 4, [], None],
    ]))
    # re-registration: the later registration wins; list alias registers every alias; set_dispatch keeps the table
    out.append(dict(profile="fixed:shadow", impls={"1": rd, "2": rd, "3": rd, "4": rd}, ops=[
        ["new", 1, ["key", 20, "str"], ["f", 1], None],
        ["register", 1, 5, ["f", 2]], ["register", 1, 5, ["f", 3]],
        ["eval", 1, [[10, 1], [20, 5]], None],
        ["overload", 1, [2, 4, 6], 2, 4, True],
        ["eval", 1, [[10, 1], [20, 2]], None], ["eval", 1, [[10, 1], [20, 4]], None], ["eval", 1, [[10, 1], [20, 6]], None],
        ["new", 3, ["missing"], ["f", 1], 9],
        ["register", 3, 5, ["f", 2]],
        ["set_dispatch", 3, ["key", 21, "opt"]],
        ["eval", 3, [[10, 1], [21, 5]], None], ["eval", 3, [[10, 1]], None], ["eval", 3, [[10, 1], [21, 3]], None],
    ]))
    # default wrapped (value unregistered: dispatch key in the fingerprint) vs unwrapped (dispatch
    # fails: not in it): {K20 absent} then {K20: unregistered} then another unregistered value
    out.append(dict(profile="fixed:wrap", impls={"1": dict(reads=[[10, None], [20, 6]], bad=None), "2": rd}, ops=[
        ["new", 1, ["key", 20, "opt"], ["f", 1], None],
        ["overload", 1, [5], 2, 2, False],
        ["eval", 1, [[10, 1]], None], ["eval", 1, [[10, 1], [20, 3]], None], ["eval", 1, [[10, 1], [20, 4]], None],
        ["eval", 1, [[10, 1], [20, 5]], None], ["eval", 1, [[10, 1]], None],
        ["new", 3, ["key", 20, "opt"], None, None],
        ["eval", 3, [[10, 1]], None], ["eval", 3, [[10, 1], [20, 3]], None],
        ["overload", 3, [3], 4, 2, False], ["eval", 3, [[10, 1], [20, 3]], None],
    ]))
    # Option with default as dispatch: {} (value 5 by default) vs {K20: 6} vs {K20: 5}
    out.append(dict(profile="fixed:keydef", impls={"1": rd, "2": rd, "3": rd}, ops=[
        ["new", 1, ["keydef", 20, 5], ["f", 1], 3],
        ["overload", 1, [5], 2, 2, False], ["overload", 1, [6], 3, 3, False],
        ["eval", 1, [[10, 1]], None], ["eval", 1, [[10, 1], [20, 6]], None], ["eval", 1, [[10, 1], [20, 5]], None],
        ["eval", 1, [[10, 1], [20, 2]], None], ["eval", 1, [[10, 1]], None],
    ]))
    # no dispatch: overload is refused, register is accepted but never selected
    out.append(dict(profile="fixed:nodispatch", impls={"1": rd, "2": rd}, ops=[
        ["new", 1, ["missing"], ["f", 1], None],
        ["overload", 1, [5], 2, 2, False],
        ["register", 1, 5, ["f", 2]],
        ["eval", 1, [[10, 1], [20, 5]], None],
    ]))
    return out


def fixed_scenarios_families():
    """One always-run representative per input family added in round 2 (the random streams
    'tuple', 'tupleds', 'interface_tuple', 'interface_own', 'pair', 'interface_pair' draw from the
    same families)."""
    rd = dict(reads=[[10, None]], bad=None)
    out = []
    # composite (tuple) dispatch values: a bare tuple alias is ONE alias; a list of tuples registers
    # each; the components of a tuple alias select nothing
    hist = [
        ["overload", 1, [5], 2, 2, False],             # @d.overload(tv(5)): a bare tuple
        ["overload", 1, [2, 4], 3, 3, True],           # @d.overload([tv(2), tv(4)])
        ["register", 1, 6, ["f", 4]],
        ["eval", 1, [[10, 1], [20, 5]], None], ["eval", 1, [[10, 1], [20, 2]], None], ["eval", 1, [[10, 1], [20, 4]], None],
        ["eval", 1, [[10, 1], [20, 6]], None], ["eval", 1, [[10, 1], [20, 3]], None], ["eval", 1, [[10, 1]], None],
        ["new", 4, None, None, 8],                     # abstract, with a callback (dispatch filled in below)
        ["overload", 4, [3], 5, 2, False],
        ["overload_ds", 4, [1], 2, False],             # stacked: the same overload under a bare tuple alias of another dataset
        ["eval", 4, [[10, 2], [20, 3]], None], ["eval", 4, [[10, 2], [20, 1]], None], ["eval", 4, [[10, 2], [20, 5]], None],
        ["eval", 4, [[10, 2]], None],
    ]
    for enc, e in (("tuple", ["key", 20, "str"]), ("tuple", ["keydef", 20, 5]), ("tuple", ["keydom", 20, None, [2, 3, 5, 6]]),
                   ("tupleds", ["dataset", 20, None, []]), ("tupleds", ["dataset", 20, 5, []])):
        ops = [["new", 1, e, ["f", 1], None]] + copy.deepcopy(hist)
        ops[10][2] = e
        out.append(dict(profile="fixed:" + enc, enc=enc, impls={"1": rd, "2": rd, "3": rd, "4": rd}, ops=ops))
    # interface members that had a dispatch (and registrations) of their own before the interface took
    # them: every member resolves by the INTERFACE's dispatch, whatever the former keys say
    for enc in (None, "tuple"):
        out.append(dict(profile="fixed:own", impls={str(g): rd for g in range(1, 9)}, **({"enc": enc} if enc else {}), ops=[
            ["new", 1, ["key", 21, "opt"], None, None],
            ["new", 2, ["keydef", 23, 5], ["f", 1], 7],
            ["overload", 2, [5], 5, 2, False],
            ["register", 2, 6, ["f", 3]],
            ["interface", 1, ["key", 20, "str"], [[101, "existing", 1, None], [102, "existing", 2, None],
                                                   [103, "abstract", 3, None], [104, "default", 4, 4]]],
            ["implement", [1], [5], [[101, ["f", 5], "func"], [103, ["f", 6], "func"]], "single"],
            ["implement", [1], [2, 4], [[101, ["f", 7], "func"], [103, ["f", 6], "func"], [102, ["f", 8], "func"]], "list"],
            ["eval", 1, [[10, 1], [20, 5]], 1], ["eval", 2, [[10, 1], [20, 5]], 1], ["eval", 3, [[10, 1], [20, 5]], 1], ["eval", 4, [[10, 1], [20, 5]], 1],
            ["eval", 1, [[10, 2], [20, 2], [21, 5], [23, 6]], 1], ["eval", 2, [[10, 2], [20, 2], [21, 5], [23, 6]], 1],
            ["eval", 3, [[10, 2], [20, 2], [21, 5], [23, 6]], 1],
            ["eval", 2, [[10, 3], [20, 3], [23, 5]], 1], ["eval", 2, [[10, 3], [20, 6]], 1], ["eval", 2, [[10, 3]], 1],
            ["eval", 1, [[10, 3], [21, 5]], 1], ["eval", 1, [[10, 3], [20, 3], [21, 5]], 1],
        ]))
    # two-option composite dispatch values (oracle-only: Model/Dispatch.v has no two-key dispatch form)
    for e in (["pair", 20, None, 22, 2], ["pair", 20, None, 22, None], ["pair", 20, 1, 22, 2]):
        out.append(dict(profile="fixed:pair", model=False, impls={"1": rd, "2": rd, "3": rd, "4": rd}, ops=[
            ["new", 1, e, ["f", 1], 9],
            ["overload", 1, [[1, 2]], 2, 2, False],            # @d.overload((1, "v2")): ONE alias
            ["overload", 1, [[2, 1], [2, 2]], 3, 3, True],
            ["register", 1, [3, 3], ["f", 4]],
            ["eval", 1, [[10, 1], [20, 1], [22, 2]], None], ["eval", 1, [[10, 1], [20, 1]], None],
            ["eval", 1, [[10, 1], [20, 2], [22, 1]], None], ["eval", 1, [[10, 1], [20, 2]], None],
            ["eval", 1, [[10, 1], [20, 1], [22, 1]], None], ["eval", 1, [[10, 1], [20, 3], [22, 3]], None],
            ["eval", 1, [[10, 1]], None], ["eval", 1, [[10, 1], [22, 2]], None], ["eval", 1, [[10, 1], [20, 1], [22, 2]], None],
            ["new", 4, e, None, None],
            ["overload", 4, [[1, 2]], 5, 2, False],
            ["eval", 4, [[10, 2], [20, 1], [22, 2]], None], ["eval", 4, [[10, 2], [20, 2], [22, 1]], None], ["eval", 4, [[10, 2]], None],
        ]))
    return out


def fixed_scenarios_r3():
    """One always-run representative per input family added in round 3 (the random streams 'eqval',
    'interface_eqval', 'interface_meta' draw from the same families)."""
    rd = dict(reads=[[10, None]], bad=None)
    pl = dict(reads=[], bad=None)
    va = dict(reads=[], bad=None, form="value")
    out = []
    # an alias re-registered with a Value that compares == to the registered one (int -> float -> complex;
    # 1 -> True): the LAST registration is the one evaluated; through Dataset.register and through the
    # dataset's public Overloaded object; scalar and tuple aliases
    for regvia, enc, e in ((None, None, ["key", 20, "str"]), ("overloads", None, ["keydef", 20, 5]), (None, "tuple", ["key", 20, "opt"]),
                           ("overloads", "tuple", ["keydom", 20, None, [3, 5, 6]])):
        sc = dict(profile="fixed:eqval", impls={"1": rd, "2": dict(va), "1002": dict(va), "3002": dict(va), "3": dict(va), "4003": dict(va),
                                                "5": dict(va), "1": rd, "6": dict(va), "2006": dict(va)}, ops=[
            ["new", 1, e, ["f", 1], 7],
            ["register", 1, 5, ["f", 2]], ["register", 1, 6, ["f", 3]],
            ["register", 1, 5, ["f", 1002]],
            ["eval", 1, [[10, 1], [20, 5]], None], ["eval", 1, [[10, 1], [20, 6]], None],
            ["register", 1, 6, ["f", 4003]], ["register", 1, 5, ["f", 3002]],
            ["eval", 1, [[10, 2], [20, 5]], None], ["eval", 1, [[10, 2], [20, 6]], None], ["eval", 1, [[10, 2], [20, 3]], None],
            ["new", 2, e, None, None],
            ["register", 2, 3, ["f", 2]], ["register", 2, 3, ["f", 3002]], ["register", 2, 3, ["f", 1002]],
            ["eval", 2, [[20, 3]], None], ["eval", 2, [[20, 6]], None],
        ])
        sc["impls"].pop("6"), sc["impls"].pop("2006")
        if regvia:
            sc["regvia"] = regvia
        if enc:
            sc["enc"] = enc
        out.append(sc)
    # 1 -> True -> 1.0 under one alias, evaluated between the registrations under ANOTHER alias only
    out.append(dict(profile="fixed:eqval", impls={"1": dict(va), "2001": dict(va), "1001": dict(va), "2": rd}, ops=[
        ["new", 1, ["key", 20, "str"], ["f", 2], None],
        ["register", 1, 5, ["f", 1]], ["eval", 1, [[10, 1], [20, 6]], None],
        ["register", 1, 5, ["f", 2001]], ["eval", 1, [[10, 1], [20, 5]], None],
        ["register", 1, 6, ["f", 1]], ["register", 1, 6, ["f", 1001]], ["eval", 1, [[10, 3], [20, 6]], None],
    ]))
    # an interface implemented again under the same alias with members given as ==-equal plain values (class
    # attribute 1, then 1.0; a member default 1 implemented as True), by every spelling
    for st1, st2 in (("single", "implements"), ("metaclass", "call"), ("list", "metaclass")):
        out.append(dict(profile="fixed:eqval_interface", impls={"1": dict(pl), "2": dict(pl), "1002": dict(pl), "2001": dict(pl), "4002": dict(va), "3": rd}, ops=[
            ["interface", 1, ["key", 20, "str"], [[101, "abstract", 1, None], [102, "value", 2, 1], [103, "default", 3, 3]]],
            ["implement", [1], [5], [[101, ["f", 2], "value"]], st1],
            ["implement", [1], [5], [[101, ["f", 1002], "value"], [102, ["f", 2001], "value"]], st2],
            ["eval", 1, [[10, 1], [20, 5]], 1], ["eval", 2, [[10, 1], [20, 5]], 1], ["eval", 3, [[10, 1], [20, 5]], 1],
            ["implement", [1], [5, 6], [[101, ["f", 4002], "obj"]], st2],
            ["eval", 1, [[10, 2], [20, 6]], 1], ["eval", 2, [[10, 2], [20, 6]], 1], ["eval", 1, [[10, 1], [20, 5]], 1],
        ]))
    # definitions through the metaclasses: a class statement with metaclass=Implementation / a direct call that
    # omits an abstract member or names an unknown one is rejected and registers nothing; complete ones register
    for ist, s1, s2 in (("metaclass", "metaclass", "call"), ("call", "call", "metaclass"), ("decorator", "metaclass", "metaclass")):
        out.append(dict(profile="fixed:meta", impls={str(g): rd for g in range(1, 9)}, ops=[
            ["interface", 1, ["key", 20, "opt"], [[101, "abstract", 1, None], [102, "abstract", 2, None], [103, "default", 3, 3]], ist],
            ["implement", [1], [5], [[101, ["f", 4], "func"], [103, ["f", 5], "func"]], s1],          # omits 102
            ["eval", 3, [[10, 1], [20, 5]], 1], ["eval", 1, [[10, 1], [20, 5]], 1],
            ["implement", [1], [6], [[102, ["f", 4], "func"]], s2],                                   # omits 101
            ["implement", [1], [6], [[101, ["f", 4], "func"], [102, ["f", 5], "func"], [104, ["f", 6], "func"]], s2],   # unknown 104
            ["eval", 2, [[10, 1], [20, 6]], 1], ["eval", 3, [[10, 1], [20, 6]], 1],
            ["implement", [1], [5, 6], [[101, ["f", 4], "func"], [102, ["f", 5], "obj"]], s1],
            ["eval", 1, [[10, 2], [20, 5]], 1], ["eval", 2, [[10, 2], [20, 6]], 1], ["eval", 3, [[10, 2], [20, 6]], 1],
            ["interface", 2, ["keydef", 21, 5], [[101, "abstract", 4, None], [105, "abstract", 5, None]], ist],
            ["implement", [1, 2], [2], [[101, ["f", 6], "func"], [102, ["f", 7], "func"]], s2],       # omits 105 of the second interface
            ["eval", 1, [[10, 3], [20, 2]], 1], ["eval", 4, [[10, 3], [21, 2]], 2],
            ["implement", [2, 1], [2], [[101, ["f", 6], "func"], [102, ["f", 7], "func"], [105, ["f", 8], "func"]], s1],
            ["eval", 1, [[10, 3], [20, 2]], 1], ["eval", 4, [[10, 3], [21, 2]], 2], ["eval", 5, [[10, 3]], 2], ["eval", 5, [[10, 3], [21, 2]], 2],
        ]))
    return out


def fixed_scenarios_r4():
    """Always-run representatives of the round-4 family (the random streams 'optkind' / 'interface_optkind' draw from
    it): one history per kind of mapping; the caller's dictionary reaches the dispatch of a dataset / an interface
    member through pre-set layers (with_options derivatives, themselves given as that kind), at the entry point and
    below a consumer."""
    rd = dict(reads=[[10, None]], bad=None)
    r2 = dict(reads=[[10, 2], [11, 1]], bad=None)
    out = []
    for j, kind in enumerate(KIND_NAMES):
        e = [["key", 20, "str"], ["keydef", 20, 5], ["keydom", 20, None, [2, 3, 5, 6]], ["dataset", 20, None, [4]]][j % 4]
        enc = "tuple" if (j % 3 == 2 and e[0] != "dataset") else None
        sc = dict(profile="fixed:optkind", impls={"1": rd, "2": rd, "3": r2, "4": rd, "5": rd}, ops=[
            ["new", 1, e, ["f", 1], 7],
            ["overload", 1, [5], 2, 2, False], ["register", 1, 6, ["f", 3]],
            ["with_options", 3, 1, [[30, 1]], kind],
            ["eval", 3, [[10, 1], [20, 5]], None, kind], ["eval", 3, [[10, 1], [20, 6]], None, kind],
            ["eval", 3, [[10, 1], [20, 3]], None, kind], ["eval", 3, [[10, 1]], None, kind],
            ["new", 4, ["missing"], ["d", 3], 8],
            ["eval", 4, [[10, 2], [11, 2], [20, 6]], None, kind], ["eval", 4, [[10, 2], [20, 5]], None, kind],
            ["with_options", 5, 4, [[11, 2], [30, 2]], kind],
            ["eval", 5, [[10, 3], [20, 6]], None, kind], ["eval", 1, [[10, 3], [20, 6]], None, kind],
            ["new", 6, e, None, None],
            ["overload", 6, [5], 7, 4, False],
            ["with_options", 8, 6, [[30, 3]], kind],
            ["eval", 8, [[10, 1], [20, 5]], None, kind], ["eval", 8, [[10, 1], [20, 2]], None, kind], ["eval", 6, [[10, 1], [20, 5]], None, kind],
        ])
        if enc:
            sc["enc"] = enc
        out.append(sc)
        out.append(dict(profile="fixed:optkind_interface", impls={"1": rd, "2": rd, "3": r2, "4": rd, "5": dict(reads=[], bad=None)}, ops=[
            ["interface", 1, ["key", 20, "str"] if j % 2 else ["keydef", 20, 6], [[101, "abstract", 1, None], [102, "default", 2, 1], [103, "value", 3, 5]]],
            ["implement", [1], [5], [[101, ["f", 2], "func"], [102, ["f", 3], "func"]], "single"],
            ["implement", [1], [6], [[101, ["f", 4], "func"]], "list"],
            ["with_options", 4, 1, [[30, 1]], kind], ["with_options", 5, 2, [[30, 1], [11, 2]], kind], ["with_options", 6, 3, [[30, 1]], kind],
            ["eval", 4, [[10, 1], [20, 5]], 1, kind], ["eval", 5, [[10, 1], [20, 5]], 1, kind], ["eval", 6, [[10, 1], [20, 5]], 1, kind],
            ["eval", 4, [[10, 2], [20, 6]], 1, kind], ["eval", 5, [[10, 2], [20, 6]], 1, kind],
            ["eval", 4, [[10, 2], [20, 3]], 1, kind], ["eval", 5, [[10, 2], [20, 3]], 1, kind],
            ["new", 7, ["missing"], ["d", 4], 9],
            ["eval", 7, [[10, 3], [20, 5]], None, kind], ["eval", 7, [[10, 3], [20, 6]], None, kind], ["eval", 7, [[10, 3]], None, kind],
            ["eval", 1, [[10, 3], [20, 6]], 1, kind],
        ]))
    return out


def pair_scenarios():
    """Exhaustive small scope: every dispatch form x every ordered pair of dictionaries over
    {dispatch key absent / registered 5 / registered 6 / unregistered 3 / 4} x {K10 = 1, 2} x
    {default reads K10 | default also reads the dispatch key}: evaluate o1, o2, o1 again."""
    forms = [["key", 20, "str"], ["keydef", 20, 5], ["keydef", 20, 3], ["keydom", 20, None, [3, 5, 6]],
             ["keydom", 20, 3, [5, 6]], ["dataset", 20, None, [4]], ["dataset", 20, 5, []], ["missing"],
             ["keydom", 20, 5, [5, 6]], ["dataset", 20, 5, [4]]]
    dicts = [[[10, x]] + ([[20, v]] if v else []) for v in (None, 5, 6, 3, 4) for x in (1, 2)]
    defaults = [dict(reads=[[10, None]], bad=None), dict(reads=[[10, None], [20, 6]], bad=None)]
    rd = dict(reads=[[10, None]], bad=None)
    out = []
    for fi, e in enumerate(forms):
        for di, dd in enumerate(defaults):
            for o1 in dicts:
                for o2 in dicts:
                    if o1 == o2:
                        continue
                    ops = [["new", 1, e, ["f", 1], 7 if (fi + di) % 2 else None]]
                    if e[0] != "missing":
                        ops += [["overload", 1, [5], 2, 2, False], ["register", 1, 6, ["f", 3]]]
                    ops += [["eval", 1, o1, None], ["eval", 1, o2, None], ["eval", 1, o1, None]]
                    out.append(dict(profile="pairs" if dispatch_safe(e) else "pairs19",
                                    impls={"1": dd, "2": rd, "3": rd}, ops=ops))
    return out


D19_WITNESS = dict(profile="witness:D19", impls={"1": dict(reads=[[10, None]], bad=None), "2": dict(reads=[[10, None]], bad=None)}, ops=[
    ["new", 1, ["keydom", 20, 5, [5, 6]], ["f", 1], 7],
    ["overload", 1, [5], 2, 2, False],
    ["eval", 1, [[10, 1], [20, 9]], None],
    ["eval", 1, [[10, 1]], None],
])
D22_WITNESS = dict(profile="witness:D22", impls={"1": dict(reads=[[10, None]], bad=None), "2": dict(reads=[[10, None]], bad=None)}, ops=[
    ["new", 1, ["missing"], ["f", 1], None],
    ["eval", 1, [[10, 1]], None],
    ["set_dispatch", 1, ["keydef", 20, 5]],
    ["overload", 1, [5], 2, 2, False],
    ["eval", 1, [[10, 1]], None],
    ["eval", 1, [[10, 2]], None],
])
KNOWN_WHAT = {
    "D19": "dispatch with a fallback for an absent key that fails on a present value: the default's value stored under the dispatch-free fingerprint is served when the key is absent (dispatch value = the fallback, registered)",
    "D22": "set_dispatch keeps the cache: a value stored under the previous dispatch expression is served under the new one for another dispatch value",
}


# ----------------------------------------------------------------------------- run / replay

def run(ctx):
    L = _labrea()
    rng = ctx.rng
    n = dict(overload=150, interface=110, zone19=40, zone22=40) if ctx.quick else dict(overload=6000, interface=4500, zone19=900, zone22=900)
    scs = fixed_scenarios()
    for profile, cnt in n.items():
        for _ in range(cnt):
            scs.append(gen_scenario(rng, profile))
    pairs = pair_scenarios()
    scs += rng.sample(pairs, 300) if ctx.quick else pairs
    # round-2 input families (generated after the older streams, which therefore stay as they were)
    scs += fixed_scenarios_families()
    n2 = dict(tuple=45, tupleds=35, interface_tuple=30, interface_own=60, pair=35, interface_pair=20) if ctx.quick else \
        dict(tuple=1500, tupleds=1200, interface_tuple=1000, interface_own=2000, pair=1200, interface_pair=700)
    for profile, cnt in n2.items():
        for _ in range(cnt):
            scs.append(gen_scenario(rng, profile))
    # round-3 input families (again generated after everything older)
    scs += fixed_scenarios_r3()
    n3 = dict(eqval=60, interface_eqval=60, interface_meta=60) if ctx.quick else dict(eqval=1200, interface_eqval=1200, interface_meta=1200)
    for profile, cnt in n3.items():
        for _ in range(cnt):
            scs.append(gen_scenario(rng, profile))
    # round-4 input family (generated after everything older): dictionaries handed over as every kind of mapping
    scs += fixed_scenarios_r4()
    n4 = dict(optkind=70, interface_optkind=50) if ctx.quick else dict(optkind=1500, interface_optkind=1200)
    for profile, cnt in n4.items():
        for _ in range(cnt):
            scs.append(gen_scenario(rng, profile))
    res = check_scenarios(ctx, L, scs, "Cases_C07")
    mism = [r["mismatch"] for r in res if r["mismatch"]]
    violations = [v for r in res for v in r["violations"]]
    # a failure inside a zone stream is only attributed when the model agrees (done in check_scenarios);
    # a zone failure in a well-formed profile is a generator leak: keep it (it stays tagged, the zone is semantic)
    known = []
    wres = check_scenarios(ctx, L, [D19_WITNESS, D22_WITNESS], "Witness_C07")
    for fid, r in zip(("D19", "D22"), wres):
        still = any(v["zone"] == fid for v in r["violations"])
        known.append(dict(id=fid, still_fails=still, what=KNOWN_WHAT[fid],
                          impl=r["lines"], model=r["model"], model_agrees=r["mismatch"] is None))
        if r["mismatch"]:
            mism.append(r["mismatch"])
        for v in r["violations"]:
            if v["finding"] != fid:
                violations.append(v)

    dist = dict(profiles={}, ops={}, evals=0, hits=0, failing_evals=0, rejected_definitions=0, registrations=0,
                lengths={}, zone_tagged={"D19": 0, "D22": 0}, encodings={}, oracle_only_scenarios=0,
                bare_tuple_alias_overloads=0, members_with_own_dispatch=0,
                twin_value_registrations=0, definitions_by_spelling={}, registrations_via_overloads_object=0,
                dictionaries_by_mapping_kind={})
    distinct = set()
    evaluations = 0
    for sc, r in zip(scs, res):
        dist["profiles"][sc["profile"].split(":")[0]] = dist["profiles"].get(sc["profile"].split(":")[0], 0) + 1
        dist["encodings"][sc.get("enc") or "scalar"] = dist["encodings"].get(sc.get("enc") or "scalar", 0) + 1
        dist["oracle_only_scenarios"] += 0 if sc.get("model", True) else 1
        own = {op[1] for op in sc["ops"] if op[0] == "new" and op[2][0] != "missing"}
        for op in sc["ops"]:
            if op[0] == "register" and op[3][0] == "f" and op[3][1] >= 1000:
                dist["twin_value_registrations"] += 1
            if op[0] == "register" and sc.get("regvia"):
                dist["registrations_via_overloads_object"] += 1
            if op[0] == "implement":
                dist["twin_value_registrations"] += sum(1 for pr in op[3] if pr[1][0] == "f" and pr[1][1] >= 1000)
            if op[0] == "implement" or (op[0] == "interface" and len(op) > 4):
                sp = f"{op[0]}:{op[4]}"
                dist["definitions_by_spelling"][sp] = dist["definitions_by_spelling"].get(sp, 0) + 1
            if op[0] in ("overload", "overload_ds") and len(op[2]) == 1 and not op[-1] and (sc.get("enc") or isinstance(op[2][0], list)):
                dist["bare_tuple_alias_overloads"] += 1
            if op[0] == "interface":
                dist["members_with_own_dispatch"] += sum(1 for m in op[3] if m[1] == "existing" and m[2] in own)
        for op in sc["ops"]:
            dist["ops"][op[0]] = dist["ops"].get(op[0], 0) + 1
            if op[0] in ("eval", "with_options") and len(op) > 4:
                mk = f"{'caller' if op[0] == 'eval' else 'pre-set'}:{op[4]}"
                dist["dictionaries_by_mapping_kind"][mk] = dist["dictionaries_by_mapping_kind"].get(mk, 0) + 1
        ln = len(sc["ops"])
        dist["lengths"][str(ln // 5 * 5)] = dist["lengths"].get(str(ln // 5 * 5), 0) + 1
        st = r["stats"]
        dist["evals"] += st["evals"]
        dist["hits"] += st["hits"]
        dist["failing_evals"] += st["fails"]
        dist["rejected_definitions"] += st["rejected"]
        dist["registrations"] += st["regs"]
        evaluations += len(sc["ops"])
        kinds = {op[0] for op in sc["ops"]}
        if st["evals"] >= 2 and st["regs"] >= 1 and any(l.startswith("v:") for l in r["lines"]):
            distinct.add(lib.stable_hash([sc["impls"], sc["ops"]]))
    for v in violations:
        if v["finding"] in dist["zone_tagged"]:
            dist["zone_tagged"][v["finding"]] += 1
    samples = []
    for sc, r in list(zip(scs, res))[6:6 + 200:50]:
        samples.append(dict(profile=sc["profile"], ops=sc["ops"][:8], observations=r["lines"][:8]))
    return {
        "evaluations": evaluations,
        "distinct_nontrivial": len(distinct),
        "rule": "histories of 5-30 operations (new dataset / register / @overload with single, list and stacked aliases / set_dispatch / "
                "with_options / interface definition incl. members that already have a dispatch and registrations of their own / implementation incl. multi-interface and rejected ones / "
                "evaluate, with stale-hit probes changing only the dispatch value; scalar and composite (tuple) dispatch values and aliases, bare and listed; "
                "plain-Value implementations that compare == to the one they replace (same number, another numeric type), compared type-aware; "
                "interfaces and implementations defined by the decorators, by a class statement with the metaclass, or by calling the metaclass; "
                "caller and pre-set dictionaries handed over as every kind of mapping the unchanged library accepts at the top level of a dataset call - OrderedDict, "
                "dict subclasses incl. defaultdict and __missing__, ChainMap over several maps with shadowed entries, UserDict, a user Mapping - reaching a "
                "dispatch through with_options layers at the entry point and below consumers); "
                "evaluations = operations run on both sides; a history is non-trivial when it has >= 2 "
                "evaluations, >= 1 registration and >= 1 successful evaluation; distinct by hash of (implementation table, operations)",
        "samples": samples,
        "traces_validated_against_impl": len(scs) + 2,
        "correspondence_mismatches": mism[:5],
        "violations": violations,
        "known": known,
        "distribution": dict(dist, mismatches=len(mism), scenarios=len(scs)),
        "exhaustive": False,
        "assumptions": [
            "implementations and callbacks are deterministic functions of the options they declare (free-algebra bodies make a wrong implementation, argument or missing callback visible)",
            "dispatch values and option values are hashable JSON scalars (ints / brace-free strings) or, in the 'tuple'/'tupleds'/'pair' streams, tuples of such scalars; option dictionaries are flat",
            "the 'tuple' and 'tupleds' realisations are bijections on the atoms, so the model term of such a history is the scalar one; the two-option dispatch form ('pair') has no model counterpart and is checked by the oracle only",
            "hit/miss of an evaluation is observed through a dataset effect (runs exactly when the value is computed)",
            "twin implementation atoms (g >= 1000) are realised as the number g % 1000 in another numeric type; the model sees them as unrelated atoms, the oracle compares results type-aware, so 'the last registration wins' is checked even when the registered Values compare ==",
            "the kind of mapping a dictionary is handed over as (round 4) does not change the history's model term: Options is Mapping[str, JSON], the reference and the model see the key -> value function only; types.MappingProxyType is left out (the unchanged library raises MixError on it)",
            "a dataset is never (transitively) registered as its own implementation (Python recurses forever; the model runs out of fuel)",
            "reference for with_options derivatives: they share the base's table object and cache; set_dispatch on either side unshares the table (the model records the sharing as the code has it)",
        ],
        "trusted_base": [
            "the dispatch dataset form (DDataset) is modelled as a pure function of its option (its own cache is assumed transparent: C01)",
            "json.dumps-based fingerprint equality is modelled as equality of sorted (key, value) lists",
        ],
    }


def replay(ctx, payload):
    L = _labrea()
    sc = payload.get("scenario")
    if sc is None and payload.get("broken"):
        for b in payload["broken"]:
            if isinstance(b, dict) and b.get("scenario"):
                sc = b["scenario"]
                break
    if sc is None:
        return True, {"note": "payload carries no scenario (a proof obligation or the build broke); re-run the check", "payload_kind": payload.get("kind")}
    r = check_scenarios(ctx, L, [sc], "Replay_C07")[0]
    new = [v for v in r["violations"] if v["finding"] is None]
    detail = {"ops": sc["ops"], "impl": r["lines"], "model": r["model"],
              "oracle_violations": [dict(desc=v["desc"], op_index=v["op_index"], detail=v["detail"], finding=v["finding"]) for v in r["violations"]],
              "correspondence_mismatch": r["mismatch"] and {k: r["mismatch"][k] for k in ("first_differing_op", "op", "impl", "model")}}
    return bool(new) or r["mismatch"] is not None, detail
