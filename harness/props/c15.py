"""C15 — threads: handler contexts are thread-local; inherit(); concurrent register and concurrent
cached evaluation are safe.

Parts (see DESIGN.md 5/C15):
  * scan_atomicity   fail-closed ast scan of labrea/runtime.py and labrea/overload.py -> atomicity flags,
                     written into a generated Obligations_C15.v that discharges the hypotheses of the
                     theorems in coq/Properties/C15.v by reflexivity;
  * OpRunner         operation-level controlled scheduler (each worker runs one op per baton);
  * LineRunner       line-level controlled scheduler (sys.settrace inside labrea/runtime.py, overload.py,
                     cache.py; a thread can be preempted between two lines; bounded preemptions);
  * stress           free-running threads with a tiny switch interval (thorough tier);
  * oracle           the property's own text on the implementation's observations;
  * correspondence   Model/ThreadsRun.v on the same programs + schedule (ctx.coq_eval).
No hook inside labrea is used.  Every wait has a timeout; a scenario that hangs is a harness error,
never a violation.
"""
import ast
import itertools
import os
import sys
import threading
import time

import lib

PID = "C15"
COQ_TARGETS = ["Model/ThreadsRun.vo"]

WAIT = 10.0          # seconds: every blocking wait in the schedulers
FLAG_NAMES = ["enter_atomic", "exit_atomic", "current_atomic", "inherit_atomic",
              "register_default_atomic", "register_rmw_atomic"]
# hypotheses the theorems of Properties/C15.v actually take
NEEDED = {"inherit_atomic": ["C15_inherit_snapshot"],
          "current_atomic": ["C15_request_served_by_own_runtime"],
          "register_rmw_atomic": ["C15_register_all_present"]}


class ScanError(Exception):
    pass


# ----------------------------------------------------------------------------- source scan

MUTATORS = {"pop", "setdefault", "update", "clear", "append", "popitem", "__setitem__", "__delitem__",
            "extend", "insert", "remove"}


def _parents(tree):
    par = {}
    for n in ast.walk(tree):
        for c in ast.iter_child_nodes(n):
            par[c] = n
    return par


def _functions(tree):
    """qualified name -> FunctionDef for module-level functions and methods of module-level classes"""
    out = {}
    for n in tree.body:
        if isinstance(n, (ast.FunctionDef, ast.AsyncFunctionDef)):
            out[n.name] = n
        elif isinstance(n, ast.ClassDef):
            for m in n.body:
                if isinstance(m, (ast.FunctionDef, ast.AsyncFunctionDef)):
                    out[f"{n.name}.{m.name}"] = m
    return out


def _module_locks(tree):
    """module-level names bound to threading.Lock()/RLock()"""
    names = set()
    for n in tree.body:
        if isinstance(n, ast.Assign) and isinstance(n.value, ast.Call):
            f = n.value.func
            fname = f.attr if isinstance(f, ast.Attribute) else getattr(f, "id", "")
            if fname in ("Lock", "RLock"):
                for t in n.targets:
                    if isinstance(t, ast.Name):
                        names.add(t.id)
    return names


def _expr_key(e):
    """'lock' for Name lock, 'self._lock' for Attribute(self, _lock), else None"""
    if isinstance(e, ast.Name):
        return e.id
    if isinstance(e, ast.Attribute) and isinstance(e.value, ast.Name):
        return f"{e.value.id}.{e.attr}"
    return None


def _enclosing_withs(node, par, stop):
    """keys of the context expressions of all `with` statements lexically enclosing node (inside stop)"""
    keys = []
    cur = node
    while cur is not stop and cur in par:
        p = par[cur]
        if isinstance(p, ast.With) and cur in p.body:
            for it in p.items:
                keys.append(_expr_key(it.context_expr))
        if isinstance(p, (ast.FunctionDef, ast.AsyncFunctionDef, ast.Lambda)) and p is not stop:
            raise ScanError(f"line {node.lineno}: shared access inside a nested function (not recognised)")
        cur = p
    return keys


def _is_write(node, par):
    """node is a Name/Attribute reference of a shared container: is this occurrence a mutation?"""
    if isinstance(getattr(node, "ctx", None), (ast.Store, ast.Del)):
        return True
    p = par.get(node)
    if isinstance(p, ast.Subscript) and p.value is node and isinstance(p.ctx, (ast.Store, ast.Del)):
        return True
    if isinstance(p, ast.Attribute) and p.value is node and p.attr in MUTATORS:
        return True
    if isinstance(p, ast.AugAssign) and p.target is node:
        return True
    return False


def _accesses(fn, par, match):
    """all nodes in fn matching the predicate, as (node, is_write, enclosing with keys)"""
    out = []
    for n in ast.walk(fn):
        if match(n):
            out.append((n, _is_write(n, par), _enclosing_withs(n, par, fn)))
    return out


def _first_body_line(fn, lock_keys):
    """(line of the first statement inside the outermost `with <lock>` of fn, or of fn's first statement
    when there is none; last line of fn)"""
    for st in fn.body:
        if isinstance(st, ast.With) and any(_expr_key(i.context_expr) in lock_keys for i in st.items):
            return st.body[0].lineno
    body = [s for s in fn.body if not (isinstance(s, ast.Expr) and isinstance(getattr(s, "value", None), ast.Constant))]
    return (body or fn.body)[0].lineno
