"""C15 — threads: handler contexts are thread-local; inherit(); concurrent register and concurrent
cached evaluation are safe.

Parts (see DESIGN.md 5/C15):
  * scan_atomicity   fail-closed ast scan of labrea/runtime.py and labrea/overload.py -> atomicity flags,
                     written into a generated Obligations_C15.v that discharges the hypotheses of the
                     theorems in coq/Properties/C15.v by reflexivity;
  * OpRunner         operation-level controlled scheduler (each worker runs one op per baton);
  * LineRunner       line-level controlled scheduler (sys.settrace inside labrea/runtime.py, overload.py,
                     cache.py; a thread can be preempted between two lines; bounded preemptions);
  * stress           free-running threads with a tiny switch interval (thorough tier);
  * oracle           the property's own text on the implementation's observations;
  * correspondence   Model/ThreadsRun.v on the same programs + schedule (ctx.coq_eval).
Registrations go through EVERY public registration entry point of one dataset (World.exec_reg: Overloaded.register
on its table, Dataset.register, @ds.overload(alias), @ds.overload([aliases...]) with a plain function or a ready-made
dataset, @Interface.implementation(alias | [aliases...]), @implements(Interface, alias=[...])): operation level
(all interleavings of fixed sets, random programs), line / opcode level inside overload.py + dataset.py, stress.
For the model a registration of n aliases is n Register operations.
No hook inside labrea is used.  Every wait has a timeout; a scenario that hangs is a harness error,
never a violation.
"""
import ast
import itertools
import os
import random
import sys
import threading
import time

import lib

PID = "C15"
COQ_TARGETS = ["Model/ThreadsRun.vo"]

WAIT = 10.0          # seconds: every blocking wait in the schedulers
FLAG_NAMES = ["enter_atomic", "exit_atomic", "current_atomic", "inherit_atomic",
              "register_default_atomic", "register_rmw_atomic"]
# hypotheses the theorems of Properties/C15.v take (in argument order)
OBLIG = {"C15_enter_exit_restores": ["enter_atomic", "exit_atomic"],
         "C15_inherit_snapshot": ["inherit_atomic"],
         "C15_request_served_by_own_runtime": ["current_atomic"],
         "C15_register_all_present": ["register_rmw_atomic"]}
NEEDED = {f for fs in OBLIG.values() for f in fs}


class ScanError(Exception):
    pass


# ----------------------------------------------------------------------------- source scan

MUTATORS = {"pop", "setdefault", "update", "clear", "append", "popitem", "__setitem__", "__delitem__",
            "extend", "insert", "remove"}


def _parents(tree):
    par = {}
    for n in ast.walk(tree):
        for c in ast.iter_child_nodes(n):
            par[c] = n
    return par


def _functions(tree):
    """qualified name -> FunctionDef for module-level functions and methods of module-level classes"""
    out = {}
    for n in tree.body:
        if isinstance(n, (ast.FunctionDef, ast.AsyncFunctionDef)):
            out[n.name] = n
        elif isinstance(n, ast.ClassDef):
            for m in n.body:
                if isinstance(m, (ast.FunctionDef, ast.AsyncFunctionDef)):
                    out[f"{n.name}.{m.name}"] = m
    return out


def _module_locks(tree):
    """module-level names bound to threading.Lock()/RLock()"""
    names = set()
    for n in tree.body:
        if isinstance(n, ast.Assign) and isinstance(n.value, ast.Call):
            f = n.value.func
            fname = f.attr if isinstance(f, ast.Attribute) else getattr(f, "id", "")
            if fname in ("Lock", "RLock"):
                for t in n.targets:
                    if isinstance(t, ast.Name):
                        names.add(t.id)
    return names


def _expr_key(e):
    """'lock' for Name lock, 'self._lock' for Attribute(self, _lock), else None"""
    if isinstance(e, ast.Name):
        return e.id
    if isinstance(e, ast.Attribute) and isinstance(e.value, ast.Name):
        return f"{e.value.id}.{e.attr}"
    return None


def _enclosing_withs(node, par, stop):
    """keys of the context expressions of all `with` statements lexically enclosing node (inside stop)"""
    keys = []
    cur = node
    while cur is not stop and cur in par:
        p = par[cur]
        if isinstance(p, ast.With) and cur in p.body:
            for it in p.items:
                keys.append(_expr_key(it.context_expr))
        if isinstance(p, (ast.FunctionDef, ast.AsyncFunctionDef, ast.Lambda)) and p is not stop:
            raise ScanError(f"line {node.lineno}: shared access inside a nested function (not recognised)")
        cur = p
    return keys


def _is_write(node, par):
    """node is a Name/Attribute reference of a shared container: is this occurrence a mutation?"""
    if isinstance(getattr(node, "ctx", None), (ast.Store, ast.Del)):
        return True
    p = par.get(node)
    if isinstance(p, ast.Subscript) and p.value is node and isinstance(p.ctx, (ast.Store, ast.Del)):
        return True
    if isinstance(p, ast.Attribute) and p.value is node and p.attr in MUTATORS:
        return True
    if isinstance(p, ast.AugAssign) and p.target is node:
        return True
    return False


def _accesses(fn, par, match):
    """all nodes in fn matching the predicate, as (node, is_write, enclosing with keys)"""
    out = []
    for n in ast.walk(fn):
        if match(n):
            out.append((n, _is_write(n, par), _enclosing_withs(n, par, fn)))
    return out


def _first_body_line(fn, lock_keys):
    """(line of the first statement inside the outermost `with <lock>` of fn, or of fn's first statement
    when there is none; last line of fn)"""
    for st in fn.body:
        if isinstance(st, ast.With) and any(_expr_key(i.context_expr) in lock_keys for i in st.items):
            return st.body[0].lineno
    body = [s for s in fn.body if not (isinstance(s, ast.Expr) and isinstance(getattr(s, "value", None), ast.Constant))]
    return (body or fn.body)[0].lineno


def _parse(path):
    with open(path) as fh:
        src = fh.read()
    try:
        return ast.parse(src, filename=path)
    except SyntaxError as e:
        raise ScanError(f"{path}: {e}")


def scan_runtime(path):
    tree = _parse(path)
    par = _parents(tree)
    fns = _functions(tree)
    locks = _module_locks(tree)
    if not locks:
        raise ScanError("runtime.py: no module-level threading.Lock()")
    shared = {"_RUNTIMES", "_PREVIOUS", "_DEFAULT_HANDLERS"}
    for nm in ("_RUNTIMES", "_DEFAULT_HANDLERS"):
        if not any(isinstance(n, (ast.Assign, ast.AnnAssign)) and nm in
                   [getattr(t, "id", None) for t in (n.targets if isinstance(n, ast.Assign) else [n.target])]
                   for n in tree.body):
            raise ScanError(f"runtime.py: module-level table {nm} not found")
    is_shared = lambda n: isinstance(n, ast.Name) and n.id in shared  # noqa: E731
    spec = {"enter_atomic": "Runtime.__enter__", "exit_atomic": "Runtime.__exit__",
            "current_atomic": "current_runtime", "inherit_atomic": "inherit",
            "register_default_atomic": "handle_by_default"}
    flags, detail, lines = {}, {}, {}
    for flag, fname in spec.items():
        fn = fns.get(fname)
        if fn is None:
            raise ScanError(f"runtime.py: function {fname} not found")
        acc = _accesses(fn, par, is_shared)
        if not acc:
            raise ScanError(f"runtime.py: {fname} does not access the shared tables directly (shape not recognised)")
        if fname in ("Runtime.__enter__", "Runtime.__exit__"):
            # any store into an attribute of self is a write to an object shared between threads
            for n in ast.walk(fn):
                if isinstance(n, ast.Attribute) and isinstance(n.ctx, (ast.Store, ast.Del)):
                    raise ScanError(f"runtime.py:{n.lineno}: {fname} writes attribute "
                                    f"'{_expr_key(n)}' of an object shared between threads (not modelled: "
                                    f"the model keeps the saved runtimes per thread)")
            if not any(n.id == "_RUNTIMES" and w for n, w, _ in acc):
                raise ScanError(f"runtime.py: {fname} does not write _RUNTIMES")
        flags[flag] = all(any(k in locks for k in ws) for _, _, ws in acc)
        detail[fname] = [dict(name=n.id, line=n.lineno, write=w, locked=any(k in locks for k in ws))
                         for n, w, ws in acc]
        lines[fname] = (_first_body_line(fn, locks), fn.end_lineno)
    # nobody else may mutate the shared tables
    known = set(spec.values())
    for fname, fn in fns.items():
        if fname in known:
            continue
        for n, w, _ in _accesses(fn, par, is_shared):
            if w:
                raise ScanError(f"runtime.py:{n.lineno}: {fname} mutates {n.id} (writer not modelled)")
    return flags, detail, lines


def scan_overload(path):
    tree = _parse(path)
    par = _parents(tree)
    fns = _functions(tree)
    reg = fns.get("Overloaded.register")
    init = fns.get("Overloaded.__init__")
    if reg is None or init is None:
        raise ScanError("overload.py: Overloaded.register / __init__ not found")
    is_lookup = lambda n: (isinstance(n, ast.Attribute) and n.attr == "lookup"  # noqa: E731
                           and isinstance(n.value, ast.Name) and n.value.id == "self")
    acc = _accesses(reg, par, is_lookup)
    if not any(w for _, w, _ in acc):
        raise ScanError("overload.py: Overloaded.register does not write self.lookup directly (shape not recognised)")
    inst_locks = set()
    for n in ast.walk(init):
        if isinstance(n, ast.Assign) and isinstance(n.value, ast.Call):
            for t in n.targets:
                k = _expr_key(t)
                if k and k.startswith("self.") and ("lock" in k.lower()):
                    inst_locks.add(k)
    locked = lambda ws: any(k in inst_locks for k in ws)  # noqa: E731
    flags = {"register_rmw_atomic": all(locked(ws) for _, _, ws in acc)}
    detail = {"Overloaded.register": [dict(name="self.lookup", line=n.lineno, write=w, locked=locked(ws))
                                      for n, w, ws in acc]}
    lines = {"Overloaded.register": (_first_body_line(reg, inst_locks), reg.end_lineno)}
    for fname, fn in fns.items():
        if fname in ("Overloaded.register", "Overloaded.__init__", "Overloaded.__setstate__"):
            continue
        for n, w, _ in _accesses(fn, par, is_lookup):
            if w:
                raise ScanError(f"overload.py:{n.lineno}: {fname} writes self.lookup (writer not modelled)")
    # informational: _get_lock
    info = {}
    gl = fns.get("_get_lock")
    if gl is not None:
        mlocks = _module_locks(tree)
        a = _accesses(gl, par, lambda n: isinstance(n, ast.Name) and n.id == "_LOCKS")
        info["getlock_atomic"] = bool(a) and all(any(k in mlocks for k in ws) for _, _, ws in a)
    return flags, detail, lines, info


def scan_cache(path):
    """line ranges used only to place action events of the line-level runs (never fail-closed)"""
    lines = {}
    try:
        fns = _functions(_parse(path))
    except ScanError:
        return lines
    for nm in ("MemoryCache.exists", "MemoryCache.get", "MemoryCache.set"):
        if nm in fns:
            body = [s for s in fns[nm].body if not (isinstance(s, ast.Expr) and isinstance(getattr(s, "value", None), ast.Constant))]
            lines[nm] = ((body or fns[nm].body)[0].lineno, fns[nm].end_lineno)
    return lines


def scan_atomicity(repo):
    f1, d1, l1 = scan_runtime(os.path.join(repo, "labrea", "runtime.py"))
    f2, d2, l2, info = scan_overload(os.path.join(repo, "labrea", "overload.py"))
    l3 = scan_cache(os.path.join(repo, "labrea", "cache.py"))
    flags = dict(f1, **f2)
    return dict(flags=flags, detail=dict(d1, **d2), info=info,
                lines={"runtime.py": l1, "overload.py": l2, "cache.py": l3})


def coq_flags(flags):
    b = lambda x: "true" if x else "false"  # noqa: E731
    return "(Build_flags " + " ".join(b(flags[n]) for n in FLAG_NAMES) + ")"


def write_obligations(ctx, flags):
    """Obligations_C15_<theorem>.v: the scanned flags, one lemma per hypothesis of the theorem closed by
    reflexivity, and the theorem instantiated at the scanned flags.  One file per theorem so that the
    failing ones can be named."""
    results = {}
    for th, fls in OBLIG.items():
        body = ["From Coq Require Import List NArith Bool.\n",
                "From LV Require Import Model.Threads Model.ThreadsRun Properties.C15.\n",
                f"Definition scanned_flags : flags := {coq_flags(flags)}.\n"]
        for f in fls:
            body.append(f"Lemma ob_{f} : {f} scanned_flags = true.\nProof. reflexivity. Qed.\n")
        body.append(f"Definition {th}_at_source := fun fpf valf => {th} fpf valf scanned_flags "
                    + " ".join(f"ob_{f}" for f in fls) + f".\nCheck {th}_at_source.\n")
        name = f"Obligations_C15_{th}.v"
        with open(ctx.scratch.path(name), "w") as fh:
            fh.write("".join(body))
        rc, out, err = lib.coqc(name, ctx.scratch.dir, timeout=300)
        results[th] = dict(ok=rc == 0, flags=fls, false_flags=[f for f in fls if not flags[f]],
                           error=None if rc == 0 else err[-600:])
    return results


# ----------------------------------------------------------------------------- the implementation world

HEAP = {1: {1: 11}, 2: {1: 12, 2: 22}, 3: {2: 23, 3: 33}}     # runtime object -> {request type: tag}
DEFAULTS = {1: 1, 2: 2}                                        # request type 3 has no default handler
_BASE = {}


def _base():
    """request types and their default handlers: created once per process (they are global in labrea)"""
    if _BASE:
        return _BASE
    import labrea  # noqa: F401
    from labrea import Option, cached, dataset, runtime
    from labrea.cache import MemoryCache
    from labrea.overload import Overloaded
    from labrea.types import Value

    types = {}
    for q in (1, 2, 3):
        cls = type(f"VerifRequest{q}", (runtime.Request,), {
            "__init__": lambda self, options=None: setattr(self, "options", options or {})})
        types[q] = cls
    for q, tg in DEFAULTS.items():
        types[q].handle((lambda tg: (lambda request: tg))(tg))
    from labrea import abstractdataset
    import labrea.interface  # noqa: F401
    _iface_mod = sys.modules["labrea.interface"]
    _BASE.update(runtime=runtime, Option=Option, cached=cached, dataset=dataset, MemoryCache=MemoryCache,
                 Overloaded=Overloaded, Value=Value, types=types, abstractdataset=abstractdataset,
                 interface=_iface_mod.interface, implements=_iface_mod.implements,
                 files={nm: os.path.realpath(sys.modules[f"labrea.{nm[:-3]}"].__file__)
                        for nm in ("runtime.py", "overload.py", "cache.py", "dataset.py", "interface.py")})
    return _BASE


def opts_of(o):
    return {"X": o // 10, "Y": o % 10}


REG_HOWS = ["ov", "ds", "deco", "decolist", "decolist_pre", "impl", "implements"]


def uses_reg(progs):
    return any(o[0] == "reg" for p in progs.values() for o in p)


def reg_aliases(op):
    """the aliases a registration operation registers, in the order in which it registers them"""
    return [op[1]] if op[0] == "register" else list(op[2])


class World:
    """fresh shared objects for one run: runtime objects, one Overloaded, one cached evaluatable.
    reg_dataset: the registrations of the run all go to ONE dataset (a member of an interface, so that every
    public registration entry point applies to it): Overloaded.register on its table, Dataset.register,
    @ds.overload(alias), @ds.overload([aliases...]), @Interface.implementation(alias | [aliases...]),
    @implements(Interface, alias=[...])"""

    def __init__(self, use_dataset=False, reg_dataset=False, progs=None):
        B = _base()
        self.B = B
        self.regds = self.iface = None
        self.pre = {}
        if reg_dataset:
            def m():
                return None
            m.__name__ = m.__qualname__ = "verif_member"
            self.iface = B["interface"]("DISPATCH")(type("VerifInterface", (), {"m": B["abstractdataset"](m)}))
            self.regds = self.iface.m
            for t, prog in (progs or {}).items():        # implementations built before the threads start
                for i, o in enumerate(prog):
                    if o[0] == "reg" and o[1] == "decolist_pre":
                        self.pre[(t, i)] = B["dataset"](self._fn(o[3]))
        rt = B["runtime"]
        self.rts = {r: rt.Runtime({B["types"][q]: (lambda tg: (lambda request: tg))(tg) for q, tg in h.items()})
                    for r, h in HEAP.items()}
        self.rt_id = {id(o): r for r, o in self.rts.items()}
        self.ov = B["Overloaded"](B["Option"]("DISPATCH"), {})
        self.computes = []          # (thread name, x) per body execution
        self.on_compute = None
        w = self

        def body(x):
            if w.on_compute is not None:
                w.on_compute()
            w.computes.append(x)
            return x

        if use_dataset:
            @B["dataset"]
            def verif_ds(x=B["Option"]("X")):
                return body(x)
            self.ev = verif_ds
        else:
            self.ev = B["cached"](B["Option"]("X").apply(body), B["MemoryCache"]())
        self.threads = {}
        self.entered = {}           # tid -> stack of entered runtime objects (for the matching __exit__)
        self.tags = {}
        self.evals = {}
        self.final = {}
        self.errors = []

    @staticmethod
    def _fn(v):
        def impl():
            return v
        impl.__name__ = impl.__qualname__ = f"verif_impl_{v}"
        return impl

    def target(self):
        """the overload table the registrations of this run go to (read afresh: never a saved reference)"""
        return self.regds.overloads if self.regds is not None else self.ov

    def exec_reg(self, tid, op, idx):
        B = self.B
        how, aliases, v = op[1], list(op[2]), op[3]
        ds = self.regds
        if how == "ov":
            for a in aliases:
                ds.overloads.register(a, B["Value"](v))
        elif how == "ds":
            for a in aliases:
                ds.register(a, B["Value"](v))
        elif how == "deco":
            for a in aliases:
                ds.overload(a)(self._fn(v))
        elif how == "decolist":
            ds.overload(aliases)(self._fn(v))
        elif how == "decolist_pre":
            ds.overload(aliases)(self.pre.get((tid, idx)) or B["dataset"](self._fn(v)))
        elif how == "impl":
            self.iface.implementation(aliases if len(aliases) > 1 else aliases[0])(type(f"VerifImpl{v}", (), {"m": v}))
        elif how == "implements":
            B["implements"](self.iface, alias=aliases)(type(f"VerifImpl{v}", (), {"m": staticmethod(self._fn(v))}))
        else:
            raise AssertionError(op)

    def exec_op(self, tid, op, idx=None):
        B = self.B
        k = op[0]
        try:
            if k == "enter":
                r = self.rts[op[1]]
                r.__enter__()
                self.entered[tid].append(r)
            elif k == "exit":
                if self.entered[tid]:
                    self.entered[tid].pop().__exit__(None, None, None)
            elif k == "run":
                try:
                    self.tags[tid].append(B["types"][op[1]]().run())
                except TypeError:
                    self.tags[tid].append(None)          # "No handler for request type"
            elif k == "inherit":
                B["runtime"].inherit(self.threads[op[1]])
            elif k == "register":
                self.target().register(op[1], B["Value"](op[2]))
            elif k == "reg":
                self.exec_reg(tid, op, idx)
            elif k == "eval":
                self.evals[tid].append((op[1], self.ev.evaluate(opts_of(op[1]))))
            elif k == "final":
                cur = B["runtime"].current_runtime()
                self.final[tid] = self.rt_id.get(id(cur), 0)
            else:
                raise AssertionError(op)
        except Exception as e:  # an operation that raises is an observation, not a harness failure
            self.errors.append((tid, op, type(e).__name__))
            if k == "run":
                self.tags[tid].append("ERR")
            elif k == "eval":
                self.evals[tid].append((op[1], "ERR"))
            elif k == "final":
                self.final[tid] = "ERR"

    @staticmethod
    def _impl_value(v):
        if hasattr(v, "value"):
            return v.value
        try:
            return v.evaluate({})
        except Exception:
            return "?"

    def table(self):
        try:
            return sorted((k, self._impl_value(v)) for k, v in self.target().lookup.items())
        except Exception as e:
            return [("ERR", type(e).__name__)]

    def cleanup(self):
        rt = self.B["runtime"]
        for nm in ("_RUNTIMES", "_PREVIOUS"):
            d = getattr(rt, nm, None)
            if isinstance(d, dict):
                for th in self.threads.values():
                    d.pop(th, None)

    def observation(self, tids, done=True):
        parts = []
        for t in tids:
            tg = "[" + ",".join("none" if x is None else (f"some({x})" if x != "ERR" else "ERR") for x in self.tags[t]) + "]"
            ev = "[" + ",".join(f"{o}:{v}" for o, v in self.evals[t]) + "]"
            parts.append(f"T{t}:{tg};{ev};{self.final.get(t, 0)}")
        tab = "[" + ",".join(f"{k}:{v}" for k, v in self.table()) + "]"
        return "|".join(parts) + f"|tab={tab}|done={'T' if done else 'F'}"


def reference(progs, order):
    """The property's own yardstick, in Python: a stack of runtimes per thread.  `order` is the order in
    which the operations took effect: list of (tid, op index).  Returns tags per thread, final runtime per
    thread, expected table, expected evals."""
    cur = {t: None for t in progs}
    stack = {t: [] for t in progs}
    tags = {t: [] for t in progs}
    evals = {t: [] for t in progs}
    table = {}
    for ent in order:
        t, i = ent[0], ent[1]
        op = progs[t][i]
        k = op[0]
        if k == "reg":          # (t, i): the whole operation; (t, i, j): its j-th alias taking effect
            for a in (list(op[2]) if len(ent) == 2 else [list(op[2])[ent[2]]]):
                table[a] = op[3]
            continue
        if k == "enter":
            stack[t].append(cur[t]); cur[t] = op[1]
        elif k == "exit":
            if stack[t]:
                cur[t] = stack[t].pop()
        elif k == "run":
            r = cur[t] or 0
            cur[t] = r if cur[t] is not None else 0
            tags[t].append(HEAP.get(r, {}).get(op[1], DEFAULTS.get(op[1])))
        elif k == "inherit":
            cur[t] = cur[op[1]] if cur[op[1]] is not None else 0
        elif k == "register":
            table[op[1]] = op[2]
        elif k == "eval":
            evals[t].append((op[1], op[1] // 10))
    final = {t: (cur[t] or 0) for t in progs}
    return tags, final, sorted(table.items()), evals


# ----------------------------------------------------------------------------- operation-level scheduler

class Hang(Exception):
    pass


def run_oplevel(progs, sched, use_dataset=False):
    """Run `progs` ({tid: [op]}) on labrea; `sched` is a list of thread ids, each entry lets that thread
    execute its next whole operation.  Returns (observation string, order, world)."""
    w = World(use_dataset, uses_reg(progs), progs)
    tids = sorted(progs)
    go = {t: threading.Semaphore(0) for t in tids}
    done = threading.Semaphore(0)
    nxt = {t: 0 for t in tids}
    cmd = {}
    stop = []

    def worker(t):
        while True:
            if not go[t].acquire(timeout=WAIT * 3) or stop:
                return
            op = cmd[t]
            if op is None:
                return
            w.exec_op(t, op, cmd.get(("idx", t)))
            done.release()

    for t in tids:
        w.threads[t] = threading.Thread(target=worker, args=(t,), daemon=True, name=f"c15-op-{t}")
        w.entered[t], w.tags[t], w.evals[t] = [], [], []
    for t in tids:
        w.threads[t].start()
    order = []

    def tell(t, op):
        cmd[t] = op
        go[t].release()
        if op is not None and not done.acquire(timeout=WAIT):
            stop.append(1)
            for u in tids:
                go[u].release()
            raise Hang(f"operation {op} of thread {t} did not complete within {WAIT}s")

    try:
        for t in sched:
            if nxt[t] < len(progs[t]):
                order.append((t, nxt[t]))
                cmd[("idx", t)] = nxt[t]
                tell(t, progs[t][nxt[t]])
                nxt[t] += 1
        for t in tids:
            tell(t, ("final",))
    finally:
        for t in tids:
            if not stop:
                cmd[t] = None
                go[t].release()
        for t in tids:
            w.threads[t].join(timeout=WAIT)
        w.cleanup()
    finished = all(nxt[t] == len(progs[t]) for t in tids)
    return w.observation(tids, finished), order, w


def interleavings(lens):
    """all merges of sequences of the given lengths ({tid: n}) as lists of tids"""
    tids = sorted(lens)
    out = []

    def rec(rem, acc):
        if not any(rem.values()):
            out.append(list(acc))
            return
        for t in tids:
            if rem[t]:
                rem[t] -= 1
                acc.append(t)
                rec(rem, acc)
                acc.pop()
                rem[t] += 1
    rec(dict(lens), [])
    return out


# ----------------------------------------------------------------------------- Coq rendering

def coq_op(op):
    k = op[0]
    if k == "enter":
        return f"Enter {op[1]}"
    if k == "exit":
        return "Exit"
    if k == "run":
        return f"Run {op[1]}"
    if k == "inherit":
        return f"Inherit {op[1]}"
    if k == "register":
        return f"Register {op[1]} {op[2]}"
    if k == "eval":
        return f"EvalCached {op[1]}"
    raise AssertionError(op)


def model_ops(op):
    """the model's operations for one operation of a program: a registration of n aliases (whatever the entry
    point) is n Register operations, in the order in which the aliases are registered"""
    if op[0] == "reg":
        return [("register", a, op[3]) for a in op[2]]
    return [op]


def coq_progs(progs):
    return "[" + "; ".join(f"({t}, [" + "; ".join(coq_op(m) for o in progs[t] for m in model_ops(o)) + "])"
                           for t in sorted(progs)) + "]"


def expand_sched(progs, sched):
    """operation-level schedule (one entry = the thread's next WHOLE operation) -> the model's schedule"""
    nxt = {t: 0 for t in progs}
    out = []
    for t in sched:
        if nxt[t] < len(progs[t]):
            out += [t] * len(model_ops(progs[t][nxt[t]]))
            nxt[t] += 1
    return out


COQ_PRELUDE = ("Open Scope N_scope.\n"
               "Definition hp : list (rt * htable) := ["
               + "; ".join(f"({r}, [" + "; ".join(f"({q}, {g})" for q, g in sorted(h.items())) + "])"
                           for r, h in sorted(HEAP.items())) + "].\n"
               "Definition df : htable := [" + "; ".join(f"({q}, {g})" for q, g in sorted(DEFAULTS.items())) + "].\n")


def coq_case(flags, progs, sched, oplevel):
    fn = "observe_ops" if oplevel else "observe"
    if oplevel:
        sched = expand_sched(progs, sched)
    return f"{fn} {coq_flags(flags)} hp df {coq_progs(progs)} [" + "; ".join(str(t) for t in sched) + "]"


# ----------------------------------------------------------------------------- line-level scheduler

_WITH_LINES = {}


def with_lines(path):
    """{lineno: compiled context expression} for every `with` statement of the file"""
    if path not in _WITH_LINES:
        out = {}
        try:
            tree = _parse(path)
            for n in ast.walk(tree):
                if isinstance(n, ast.With):
                    out[n.lineno] = [compile(ast.Expression(i.context_expr), path, "eval") for i in n.items]
        except Exception:
            out = {}
        _WITH_LINES[path] = out
    return _WITH_LINES[path]


class LineRun:
    """One run of `progs` under a line-level (optionally opcode-level) controlled schedule.

    Exactly one worker holds the baton.  A worker gives it up (a) when the schedule says so at a yield
    point (`preempts`: {global yield index: target tid}), (b) when the line it is about to execute is a
    `with <lock>` whose lock is held by a parked worker (forced, not counted), (c) when it finishes.
    Yield points are the 'line' (or 'opcode') trace events inside the given labrea files."""

    def __init__(self, progs, files, preempts, start=None, scan=None, opcodes=False, use_dataset=False):
        self.w = World(use_dataset, uses_reg(progs), progs)
        self.nreg = {}
        self.lastline = {}         # tid -> last (file, line) seen (opcode events repeat the line)
        self.progs = progs
        self.tids = sorted(progs)
        self.files = {_base()["files"][f]: f for f in files}
        self.preempts = dict(preempts)
        self.start = start if start is not None else self.tids[0]
        self.scan = scan or {"lines": {}}
        self.opcodes = opcodes
        self.sem = {t: threading.Semaphore(0) for t in self.tids}
        self.finished = set()
        self.alldone = threading.Event()
        self.abort = None
        self.nyield = 0
        self.trace = []            # per yield index: (tid, file, line, tuple(other unfinished tids))
        self.order = []            # action events (tid, op index, kind)
        self.curop = {t: None for t in self.tids}
        self.seen = {}             # (tid, op index) -> set of kinds already recorded
        self.owner = {}
        self.forced = 0
        self.tid_of = {}
        self.w.on_compute = self._on_compute
        L = self.scan["lines"]
        rl, ol, cl = L.get("runtime.py", {}), L.get("overload.py", {}), L.get("cache.py", {})
        self.action_line = {
            "enter": ("runtime.py", rl.get("Runtime.__enter__")), "exit": ("runtime.py", rl.get("Runtime.__exit__")),
            "run": ("runtime.py", rl.get("current_runtime")), "inherit": ("runtime.py", rl.get("inherit")),
            "register": ("overload.py", ol.get("Overloaded.register"))}
        self.cache_lines = {k: cl.get(f"MemoryCache.{k}") for k in ("exists", "get", "set")}

    # -- baton
    def _abort(self, why):
        """give up the controlled schedule: every worker free-runs to completion (never raise inside the
        trace function)"""
        if not self.abort:
            self.abort = why
        for t in self.tids:
            self.sem[t].release()

    def _switch(self, me, target):
        self.sem[target].release()
        if not self.sem[me].acquire(timeout=WAIT):
            self._abort(f"thread {me} never got the baton back")

    def _others(self, me):
        return tuple(t for t in self.tids if t != me and t not in self.finished)

    def _held_by_other(self, me, obj):
        """would `with obj:` block now?  All other workers are parked, so a held lock stays held."""
        lk = getattr(obj, "locked", None)
        if lk is not None:                       # threading.Lock
            return bool(lk()) and self.owner.get(id(obj)) != me
        acq = getattr(obj, "acquire", None)
        if acq is None:
            return False
        try:                                     # RLock / Semaphore / Condition: probe without blocking
            if acq(False):
                obj.release()
                return False
            return self.owner.get(id(obj)) != me
        except Exception:
            return False

    def _blocked(self, me, frame, path):
        codes = with_lines(path).get(frame.f_lineno)
        if not codes:
            return False
        objs = []
        for c in codes:
            try:
                objs.append(eval(c, frame.f_globals, frame.f_locals))
            except Exception:
                pass
        if any(self._held_by_other(me, o) for o in objs):
            return True
        for o in objs:
            if hasattr(o, "acquire"):
                self.owner[id(o)] = me
        return False

    def _yield(self, me, frame, path):
        if self.abort:
            return
        k = self.nyield
        self.nyield += 1
        others = self._others(me)
        self.trace.append((me, self.files[path], frame.f_lineno, others))
        tgt = self.preempts.get(k)
        if tgt is not None and tgt in others:
            self._switch(me, tgt)
        spins = 0
        while not self.abort and self._blocked(me, frame, path):
            others = self._others(me)
            spins += 1
            if not others or spins > 200:
                self._abort(f"thread {me} blocked on a lock nobody will release (line {frame.f_lineno})")
                return
            self.forced += 1
            self._switch(me, others[(spins - 1) % len(others)])
        if not self.abort:
            self._action(me, self.files[path], frame.f_lineno)

    # -- action events (where an operation takes effect), used to map the run to a model schedule
    def _note(self, me, kind):
        cur = self.curop[me]
        if cur is None:
            return
        s = self.seen.setdefault((me, cur[0]), set())
        if kind not in s:
            s.add(kind)
            self.order.append((me, cur[0], kind))

    def _action(self, me, fname, line):
        cur = self.curop[me]
        if cur is None:
            return
        k = cur[1][0]
        if k == "eval":
            if fname != "cache.py":
                return
            done = self.seen.get((me, cur[0]), set())
            for kind, rng in self.cache_lines.items():
                if rng and rng[0] <= line <= rng[1]:
                    if kind == "exists":
                        self._note(me, "E")
                    elif kind == "set":
                        self._note(me, "S")
                    elif kind == "get" and "S" not in done and "C" not in done:
                        self._note(me, "G")
            return
        if k == "reg":          # one effect per alias: each time the locked body of Overloaded.register is entered
            f, rng = self.action_line["register"]
            if rng and f == fname and line == rng[0] and self.lastline.get(me) != (fname, line):
                n = self.nreg.get((me, cur[0]), 0)
                self.nreg[(me, cur[0])] = n + 1
                self._note(me, f"A{n}")
            self.lastline[me] = (fname, line)
            return
        f, rng = self.action_line.get(k, (None, None))
        if rng and f == fname and line == rng[0]:
            self._note(me, "A")

    def _on_compute(self):
        me = self.tid_of.get(threading.get_ident())
        if me is not None:
            self._note(me, "C")

    # -- tracing
    def _tracer(self, me):
        files = self.files
        run = self

        def local(frame, event, arg):
            if event == "line" or event == "opcode":
                run._yield(me, frame, frame.f_code.co_filename)
            return local

        def glob(frame, event, arg):
            if frame.f_code.co_filename in files:
                if run.opcodes:
                    frame.f_trace_opcodes = True
                return local
            return None
        return glob

    def _worker(self, me):
        self.tid_of[threading.get_ident()] = me
        if not self.sem[me].acquire(timeout=WAIT * 3):
            return
        w = self.w
        try:
            sys.settrace(self._tracer(me))
            try:
                for i, op in enumerate(self.progs[me]):
                    self.curop[me] = (i, op)
                    w.exec_op(me, op, i)
                self.curop[me] = None
                w.exec_op(me, ("final",))      # still traced: it takes the module lock
            finally:
                sys.settrace(None)
        finally:
            sys.settrace(None)
            self.finished.add(me)
            rest = [t for t in self.tids if t not in self.finished]
            if rest and not self.abort:
                self.sem[rest[0]].release()
            else:
                for t in rest:
                    self.sem[t].release()
                self.alldone.set()

    def go(self):
        w = self.w
        for t in self.tids:
            w.threads[t] = threading.Thread(target=self._worker, args=(t,), daemon=True, name=f"c15-line-{t}")
            w.entered[t], w.tags[t], w.evals[t] = [], [], []
        for t in self.tids:
            w.threads[t].start()
        self.sem[self.start].release()
        ok = self.alldone.wait(timeout=WAIT * 4)
        if not ok:
            self.abort = self.abort or "run did not finish"
            for t in self.tids:
                self.sem[t].release()
        for t in self.tids:
            w.threads[t].join(timeout=1.0 if self.abort else WAIT)
        w.cleanup()
        if self.abort:
            raise Hang(self.abort)
        return w.observation(self.tids, True)


def warm_up(progs, files, scan, use_dataset=False):
    """CPython instruments a code object for per-instruction events the first time a frame of it asks for them, from
    that point on: the first traced execution of a function in a process yields fewer 'opcode' events than the later
    ones.  One unscheduled run first, so that yield indices mean the same in every run (and in a replay)."""
    try:
        LineRun(progs, files, {}, scan=scan, opcodes=True, use_dataset=use_dataset).go()
    except Hang:
        pass


def explore_line(progs, files, bound, scan, opcodes=False, budget=None, rng=None, use_dataset=False):
    """All schedules of `progs` with at most `bound` preemptions, level by level (0, 1, 2 ... preemptions);
    when the budget of runs does not cover a level, that level is visited in random order (rng) until the
    budget is spent.  Yields (LineRun | None, preempts, start, error).  Stops after the first hang."""
    tids = sorted(progs)
    level = [({}, s) for s in tids]
    runs = hangs = 0
    if opcodes:
        warm_up(progs, files, scan, use_dataset)
    for depth in range(bound + 1):
        nxt = []
        if budget is not None and rng is not None and runs + len(level) > budget:
            rng.shuffle(level)
        for P, start in level:
            if (budget is not None and runs >= budget) or hangs >= 1:
                return
            r = LineRun(progs, files, P, start=start, scan=scan, opcodes=opcodes, use_dataset=use_dataset)
            runs += 1
            try:
                r.obs = r.go()
            except Hang as e:
                hangs += 1
                yield None, P, start, str(e)
                continue
            yield r, P, start, None
            if depth < bound:
                last = (max(P) + 1) if P else 0
                for k in range(last, r.nyield):
                    for u in r.trace[k][3]:
                        nxt.append(({**P, k: u}, start))
        level = nxt


def model_schedule(progs, order):
    """Map the action events of a line-level run to an action-level schedule of the model (all flags
    atomic): one entry per non-eval operation where it took effect; four per EvalCached (exists / get /
    compute / set), the ones that are local no-ops placed right after the preceding real event.
    Returns (schedule, effect order [(tid, op index)]) or None when the events are incomplete."""
    kinds = {}
    for t, i, k in order:
        kinds.setdefault((t, i), []).append(k)
    for t in progs:
        for i, op in enumerate(progs[t]):
            ks = kinds.get((t, i), [])
            if op[0] == "eval":
                if "E" not in ks or not ("G" in ks or ("C" in ks and "S" in ks)) or ("C" in ks) != ("S" in ks):
                    return None
            elif op[0] == "reg":
                if ks != [f"A{j}" for j in range(len(op[2]))]:
                    return None
            elif ks != ["A"]:
                return None
    sched, eff = [], []
    for t, i, k in order:
        ks = kinds[(t, i)]
        if k == "A":
            sched.append(t); eff.append((t, i))
        elif k[0] == "A":
            sched.append(t); eff.append((t, i, int(k[1:])))
        elif k == "E":
            sched += [t] if "G" in ks else [t, t]
            eff.append((t, i))
        elif k == "G":
            sched += [t] if "C" in ks else [t, t, t]
        else:
            sched.append(t)
    return sched, eff


# ----------------------------------------------------------------------------- the property oracle

_SOLO = {}


def solo_obs(t, prog):
    """what thread t observes when it runs its program alone (on the implementation)"""
    key = (t, tuple(prog))
    if key not in _SOLO:
        _, _, w = run_oplevel({t: list(prog)}, [t] * len(prog))
        _SOLO[key] = (list(w.tags[t]), w.final.get(t), list(w.evals[t]))
    return _SOLO[key]


def oracle(progs, w, eff_order):
    """The property text on the observations of one run.  eff_order: the order in which operations took
    effect when known (needed only for inherit and for 'last writer'), else None.  Returns list of str."""
    bad = []
    ref = reference(progs, eff_order) if eff_order is not None else None
    for t, prog in progs.items():
        has_inh = any(o[0] == "inherit" for o in prog)
        if not has_inh:
            stags, sfinal, _ = solo_obs(t, prog)
            if w.tags[t] != stags:
                bad.append(f"isolation: thread {t} observed handler tags {w.tags[t]} but {stags} when run alone")
            if w.final.get(t) != sfinal:
                bad.append(f"isolation: thread {t} ends in runtime {w.final.get(t)} but {sfinal} when run alone")
        elif ref is not None:
            if w.tags[t] != ref[0][t]:
                bad.append(f"inherit: thread {t} observed {w.tags[t]}, its parent's handlers at that moment give {ref[0][t]}")
            if w.final.get(t) != ref[1][t]:
                bad.append(f"inherit: thread {t} ends in runtime {w.final.get(t)}, expected {ref[1][t]}")
        want = [(o[1], o[1] // 10) for o in prog if o[0] == "eval"]
        if w.evals[t] != want:
            bad.append(f"cached evaluation: thread {t} got {w.evals[t]}, the values of its own options are {want}")
    regs = {}
    for t, prog in progs.items():
        for o in prog:
            if o[0] in ("register", "reg"):
                for a in reg_aliases(o):
                    regs.setdefault(a, set()).add(o[2] if o[0] == "register" else o[3])
    tab = dict(w.table())
    for a, impls in regs.items():
        if a not in tab:
            bad.append(f"register: alias {a} registered but absent from the final table {sorted(tab.items())}")
        elif tab[a] not in impls:
            bad.append(f"register: alias {a} maps to {tab[a]}, never registered for it")
    for a in tab:
        if a not in regs:
            bad.append(f"register: alias {a} in the table was never registered")
    if ref is not None and not any(b.startswith("register") for b in bad) and sorted(tab.items()) != ref[2]:
        bad.append(f"register: final table {sorted(tab.items())} differs from last-writer-wins {ref[2]}")
    if w.errors:
        bad.append(f"operations raised: {w.errors[:3]}")
    return bad


# ----------------------------------------------------------------------------- generators

EVAL_OPTS = [31, 32, 41, 42, 57]       # 10*X + Y : 31/32 and 41/42 share a fingerprint (Y is not read)

FIXED_OP = [
    ("same-runtime", {1: [("enter", 1), ("run", 1), ("exit",), ("run", 1)],
                      2: [("enter", 1), ("run", 1), ("exit",), ("run", 1)]}),
    ("nested-shared", {1: [("enter", 2), ("enter", 1), ("run", 1), ("exit",), ("run", 1), ("exit",)],
                       2: [("enter", 1), ("run", 2), ("exit",), ("run", 1)]}),
    # both threads own a runtime first, then overlap inside the SAME runtime object (shape of defect D17)
    ("shared-object", {1: [("run", 1), ("enter", 2), ("enter", 1), ("exit",), ("run", 1), ("exit",), ("run", 1)],
                       2: [("run", 1), ("enter", 1), ("exit",), ("run", 1)]}),
    ("inherit", {1: [("enter", 1), ("exit",), ("enter", 2), ("run", 1)],
                 2: [("inherit", 1), ("run", 1), ("run", 2)]}),
    ("inherit-3", {1: [("enter", 3), ("run", 3), ("exit",)], 2: [("inherit", 1), ("run", 3)],
                   3: [("inherit", 2), ("run", 2)]}),
    ("register", {1: [("register", 1, 10), ("register", 2, 20)], 2: [("register", 3, 30), ("register", 1, 11)],
                  3: [("register", 4, 40)]}),
    ("eval", {1: [("eval", 31), ("eval", 41)], 2: [("eval", 32)], 3: [("eval", 41)]}),
    ("mixed", {1: [("enter", 1), ("eval", 31), ("register", 1, 10), ("exit",)],
               2: [("inherit", 1), ("eval", 32), ("register", 1, 11), ("run", 1)]}),
]

# registrations on ONE dataset through every public entry point (see World.exec_reg), alias lists included
FIXED_OP_REG = [
    ("register-entry-points", {1: [("reg", "decolist", (1, 2), 10), ("reg", "ds", (3,), 11)],
                               2: [("reg", "impl", (3, 4), 20), ("reg", "deco", (1,), 21)],
                               3: [("reg", "ov", (5,), 30), ("reg", "implements", (2, 5), 31)]}),
    ("alias-lists", {1: [("reg", "decolist", (1, 2, 3), 10), ("register", 4, 11)],
                     2: [("reg", "decolist_pre", (3, 4), 20), ("reg", "decolist", (5, 1), 21)]}),
]

# quick-tier budgets (line runs, opcode runs) of the registration sets added to FIXED_LINE below
REG_BUDGET = {"lost-update-alias-lists": (200, 320), "alias-list-vs-register": (150, 250),
              "alias-list-decorated-function": (150, 200), "implementation-aliases": (100, 120)}

LOST = {1: [("register", 1, 10)], 2: [("register", 2, 20)]}
LOST_LIST = {1: [("reg", "decolist_pre", (1, 2), 10)], 2: [("reg", "decolist_pre", (3, 4), 20)]}

FIXED_LINE = [
    # name, progs, files, line bound (quick, thorough), opcode bound (quick, thorough) or None
    ("lost-update", LOST, ["overload.py"], (2, 3), (1, 2)),
    ("register-3", {1: [("register", 1, 10)], 2: [("register", 2, 20)], 3: [("register", 1, 11)]},
     ["overload.py"], (2, 3), None),
    ("same-runtime", {1: [("enter", 1), ("run", 1), ("exit",), ("run", 1)],
                      2: [("enter", 1), ("run", 1), ("exit",), ("run", 1)]}, ["runtime.py"], (2, 3), (1, 1)),
    ("shared-object", {1: [("run", 1), ("enter", 2), ("enter", 1), ("exit",), ("run", 1), ("exit",)],
                       2: [("run", 1), ("enter", 1), ("exit",), ("run", 1)]}, ["runtime.py"], (2, 2), None),
    ("inherit", {1: [("enter", 1), ("exit",), ("run", 1)], 2: [("inherit", 1), ("run", 1)]},
     ["runtime.py"], (2, 3), (1, 1)),
    # the same read-modify-write window reached through the other registration entry points (dataset.py: Dataset.overload
    # with an alias list, Dataset.register; interface.py: the implementation decorators)
    ("lost-update-alias-lists", LOST_LIST, ["overload.py", "dataset.py"], (2, 2), (1, 2)),
    ("alias-list-vs-register", {1: [("reg", "decolist_pre", (1, 2), 10)], 2: [("register", 3, 20), ("reg", "ds", (2, 4), 30)]},
     ["overload.py", "dataset.py"], (2, 2), (1, 1)),
    ("alias-list-decorated-function", {1: [("reg", "decolist", (1, 2), 10)], 2: [("reg", "deco", (3,), 20)]},
     ["overload.py"], (2, 3), (1, 1)),
    ("implementation-aliases", {1: [("reg", "impl", (1, 2), 10)], 2: [("reg", "implements", (3, 1), 20)]},
     ["overload.py"], (2, 3), (1, 1)),
    ("eval-same-fp", {1: [("eval", 31)], 2: [("eval", 32)]}, ["cache.py"], (2, 3), None),
    ("eval-diff-fp", {1: [("eval", 31), ("eval", 41)], 2: [("eval", 41)]}, ["cache.py"], (2, 2), None),
]


def gen_prog(rng, me, tids, n, kinds):
    prog, depth = [], 0
    for _ in range(n):
        k = rng.choice(kinds)
        if k == "handler":
            c = rng.random()
            if c < 0.30 and depth < 3:
                prog.append(("enter", rng.choice([1, 2, 3]))); depth += 1
            elif c < 0.50 and depth > 0:
                prog.append(("exit",)); depth -= 1
            elif c < 0.58 and len(tids) > 1:
                prog.append(("inherit", rng.choice([t for t in tids if t != me])))
            else:
                prog.append(("run", rng.choice([1, 1, 2, 3])))
        elif k == "register":
            prog.append(("register", rng.choice([1, 2, 3, 4]), 10 * me + rng.randint(0, 9)))
        elif k == "reg":        # a registration on the shared dataset through any public entry point
            how = rng.choice(REG_HOWS + ["decolist", "decolist_pre", "impl"])
            n = rng.choice([2, 2, 3]) if how in ("decolist", "decolist_pre", "impl", "implements") and rng.random() < 0.85 else 1
            prog.append(("reg", how, tuple(rng.sample([1, 2, 3, 4, 5], n)), 10 * me + rng.randint(0, 9)))
        else:
            prog.append(("eval", rng.choice(EVAL_OPTS)))
    prog += [("exit",)] * depth
    if depth and rng.random() < 0.7:
        prog.append(("run", rng.choice([1, 2])))
    return prog


def gen_progs(rng, nthreads, n, kinds):
    tids = list(range(1, nthreads + 1))
    return {t: gen_prog(rng, t, tids, rng.randint(max(1, n - 2), n), kinds) for t in tids}


def random_schedule(rng, progs):
    pool = [t for t, p in progs.items() for _ in p]
    rng.shuffle(pool)
    return pool


def switches(sched):
    return sum(1 for a, b in zip(sched, sched[1:]) if a != b)


# ----------------------------------------------------------------------------- stress

def stress(rounds, viol, deadline):
    """free-running threads, tiny switch interval: register and cached-eval workloads"""
    B = _base()
    old = sys.getswitchinterval()
    done = 0
    sys.setswitchinterval(1e-6)
    try:
        for rd in range(rounds):
            if time.time() > deadline:
                break
            regds = rd % 2 == 1          # every other round: registrations on a dataset, through all its entry points
            w = World(use_dataset=(rd % 4 == 0), reg_dataset=regds)
            nthr, per = 3, 12
            bar = threading.Barrier(nthr, timeout=WAIT)
            res = {}

            def work(t):
                w.tags[t], w.evals[t], w.entered[t] = [], [], []
                try:
                    bar.wait()
                except threading.BrokenBarrierError:
                    return
                for j in range(per):
                    if regds and j % 2 == 0:     # alias 100t+j as always, plus a second alias of the same registration
                        how = ["decolist", "impl", "implements", "decolist"][(j // 2) % 4]
                        w.exec_op(t, ("reg", how, (100 * t + j, 1000 + 100 * t + j), j))
                    elif regds:
                        w.exec_op(t, ("reg", ["ds", "deco", "ov"][(j // 2) % 3], (100 * t + j,), j))
                    else:
                        w.exec_op(t, ("register", 100 * t + j, j))
                    w.exec_op(t, ("eval", 10 * ((t + j) % 4 + 1) + t))
                    if j % 4 == 0:
                        w.exec_op(t, ("enter", 1 + (t + j) % 3)); w.exec_op(t, ("run", 2)); w.exec_op(t, ("exit",))
                res[t] = True

            ths = [threading.Thread(target=work, args=(t,), daemon=True) for t in range(1, nthr + 1)]
            for i, th in enumerate(ths):
                w.threads[i + 1] = th
                th.start()
            for th in ths:
                th.join(timeout=WAIT * 2)
            w.cleanup()
            if len(res) != nthr:
                raise Hang("stress round did not finish")
            done += 1
            tab = dict(w.table())
            missing = [100 * t + j for t in range(1, nthr + 1) for j in range(per) if tab.get(100 * t + j) != j]
            if regds:
                missing += [1000 + 100 * t + j for t in range(1, nthr + 1) for j in range(0, per, 2) if tab.get(1000 + 100 * t + j) != j]
            wrong = [(t, o, v) for t in range(1, nthr + 1) for o, v in w.evals[t] if v != o // 10]
            wtags = [(t, w.tags[t]) for t in range(1, nthr + 1)
                     if w.tags[t] != [HEAP[1 + (t + j) % 3].get(2, DEFAULTS[2]) for j in range(0, per, 4)]]
            if missing or wrong or wtags or w.errors:
                viol.append(dict(desc="stress (switch interval 1e-6): " +
                                 (f"aliases lost {missing[:4]} " if missing else "") +
                                 (f"evaluations with another option's value {wrong[:3]} " if wrong else "") +
                                 (f"handler tags {wtags[:2]} " if wtags else "") +
                                 (f"errors {w.errors[:2]}" if w.errors else ""),
                                 kind="stress", round=rd, finding=None))
                break
    finally:
        sys.setswitchinterval(old)
    return done


# ----------------------------------------------------------------------------- stateful definitions

# Concurrent evaluations of ONE cached dataset whose DEFINITION (or something its definition reaches through the
# graph: a default argument, a bound positional / keyword argument, a pipeline step) is an object that keeps
# scratch state on itself while it runs.  Every evaluation is handed what the graph holds as its own private copy
# (a solo evaluation of options o returns ROWS(o), however many evaluations came before); the threads evaluate at
# the same moment (a barrier INSIDE the body: every thread has written its scratch rows before any thread reads
# them back), each with options of its own, so each must still get ROWS(own options) -- also when the same
# options are asked again afterwards (what the concurrent evaluations left in the cache).
STATEFUL_DEFS = ["instance", "bound-method", "partial-pos", "partial-kw", "default-list", "default-dict",
                 "default-obj", "default-callable-obj", "class-attr-instance", "step-method", "step-instance"]
STATEFUL_WRAPS = ["dataset", "dataset-cache", "cached", "overload", "dependency"]
STATEFUL_SYNC = 3.0          # seconds: the barrier inside the body (broken -> the body just goes on)


def stateful_rows(defkind, o):
    x, y = o // 10, o % 10
    if defkind.startswith("step"):
        return [x]
    return [10 * x + i for i in range(y)]


def build_stateful(defkind, wrap, sync):
    """the shared evaluatable of one run (labrea public API only)"""
    import functools
    B = _base()
    Option, dataset, cached, MemoryCache = B["Option"], B["dataset"], B["cached"], B["MemoryCache"]

    class Scratch:                       # a plain stateful object
        def __init__(self):
            self.rows = []

    class Builder(Scratch):              # a stateful callable instance
        def __call__(self, x=Option("X"), y=Option("Y")):
            for i in range(y):
                self.rows.append(10 * x + i)
            sync()
            return list(self.rows)

        def build(self, x=Option("X"), y=Option("Y")):
            return self(x, y)

        def step(self, x):
            self.rows.append(x)
            sync()
            return list(self.rows)

    class StepInstance(Scratch):
        def __call__(self, x):
            self.rows.append(x)
            sync()
            return list(self.rows)

    def fill(rows, x, y):
        for i in range(y):
            rows.append(10 * x + i)
        sync()
        return list(rows)

    def with_scratch(scratch, x=Option("X"), y=Option("Y")):
        return fill(scratch, x, y)

    def default_list(x=Option("X"), y=Option("Y"), acc=[]):      # noqa: B006  (labrea wraps the default in a Value)
        return fill(acc, x, y)

    def kw_scratch(x=Option("X"), y=Option("Y"), acc=None):
        return fill(acc, x, y)

    def default_dict(x=Option("X"), y=Option("Y"), acc={"rows": [], "meta": {"n": 0}}):      # noqa: B006
        acc["meta"]["n"] += y
        out = fill(acc["rows"], x, y)
        return out if acc["meta"]["n"] == y else out + ["meta", acc["meta"]["n"]]

    def default_obj(x=Option("X"), y=Option("Y"), acc=Scratch()):      # noqa: B008
        return fill(acc.rows, x, y)

    def default_callable_obj(x=Option("X"), y=Option("Y"), acc=Builder()):      # noqa: B008
        return fill(acc.rows, x, y)

    class Holder:                         # the definition is a method of an instance that is itself held by a class
        worker = Builder()

    step = None
    if defkind == "instance":
        fn = Builder()
    elif defkind == "bound-method":
        fn = Builder().build
    elif defkind == "partial-pos":
        fn = functools.partial(with_scratch, [])
    elif defkind == "partial-kw":
        fn = functools.partial(kw_scratch, acc=[])
    elif defkind == "default-list":
        fn = default_list
    elif defkind == "default-dict":
        fn = default_dict
    elif defkind == "default-obj":
        fn = default_obj
    elif defkind == "default-callable-obj":
        fn = default_callable_obj
    elif defkind == "class-attr-instance":
        fn = Holder.worker.build
    elif defkind == "step-method":
        fn, step = None, Builder().step
    elif defkind == "step-instance":
        fn, step = None, StepInstance()
    else:
        raise AssertionError(defkind)
    if step is not None:
        node = Option("X").apply(step) if wrap != "dataset-cache" else (Option("X") >> step)
        if wrap in ("dataset", "dataset-cache", "overload"):
            def over(v=node):
                return v
            over.__name__ = over.__qualname__ = "verif_stateful_over_step"
            return dataset(over) if wrap == "dataset" else dataset(cache=MemoryCache())(over)
        if wrap == "dependency":
            inner = cached(node, MemoryCache())

            def outer(v=inner):
                return v
            outer.__name__ = outer.__qualname__ = "verif_stateful_outer"
            return dataset(outer)
        return cached(node, MemoryCache())
    if wrap == "dataset":
        return dataset(fn)
    if wrap == "dataset-cache":
        return dataset(cache=MemoryCache())(fn)
    if wrap == "cached":
        from labrea.application import FunctionApplication
        return cached(FunctionApplication.lift(fn), MemoryCache())
    if wrap == "overload":
        def base():
            return ["base"]
        base.__name__ = base.__qualname__ = "verif_stateful_base"
        ds = dataset(dispatch=Option("IMPL", "base"))(base)
        ds.overload("stateful")(fn)
        return ds
    if wrap == "dependency":
        inner = dataset(fn)

        def outer(v=inner):
            return v
        outer.__name__ = outer.__qualname__ = "verif_stateful_outer"
        return dataset(outer)
    raise AssertionError(wrap)


def run_stateful(case):
    """case: defkind, wrap, opts (one per thread, pairwise different X), rounds.  Round 0: all threads evaluate their own
    options at the same moment on the cold cache; round 1: every thread asks for the options ANOTHER thread had in
    round 0 (served from the cache); round 2: fresh options (X + 5), again at the same moment.
    Returns ({tid: [(options, value)]}, errors)."""
    opts = list(case["opts"])
    n = len(opts)
    inner = threading.Barrier(n)
    outer = threading.Barrier(n)

    def sync():
        try:
            inner.wait(timeout=STATEFUL_SYNC)
        except threading.BrokenBarrierError:
            pass

    ev = build_stateful(case["defkind"], case["wrap"], sync)
    extra = {"IMPL": "stateful"} if case["wrap"] == "overload" else {}
    got = {t: [] for t in range(n)}
    errors = []

    def plan(t):
        out = []
        for r in range(case.get("rounds", 3)):
            if r % 3 == 0:
                out.append(opts[t] + 50 * (r // 3))
            elif r % 3 == 1:
                out.append(opts[(t + 1) % n] + 50 * (r // 3))
            else:
                out.append(opts[t] + 50 * (r // 3) + 50)
        return out

    def work(t):
        for o in plan(t):
            try:
                outer.wait(timeout=WAIT)
            except threading.BrokenBarrierError:
                pass
            try:
                got[t].append((o, ev.evaluate(dict(opts_of(o), **extra))))
            except Exception as e:  # noqa: BLE001
                got[t].append((o, "ERR"))
                errors.append((t, o, type(e).__name__))
                inner.abort()
    ths = [threading.Thread(target=work, args=(t,), daemon=True, name=f"c15-stateful-{t}") for t in range(n)]
    for th in ths:
        th.start()
    for th in ths:
        th.join(timeout=WAIT * 3)
    if any(th.is_alive() for th in ths):
        raise Hang(f"stateful-definition run did not finish: {case}")
    return got, errors


def oracle_stateful(case, got, errors):
    bad = []
    for t in sorted(got):
        for o, v in got[t]:
            want = stateful_rows(case["defkind"], o)
            if v != want:
                bad.append(f"cached evaluation: thread {t} evaluated options {opts_of(o)} and got {v}, the value of its own "
                           f"options is {want}")
    if errors:
        bad.append(f"operations raised: {errors[:3]}")
    return bad


def gen_stateful(rng, quick):
    cases = []
    for d in STATEFUL_DEFS:
        for w in STATEFUL_WRAPS:
            for n in ((2, 3) if not quick else (rng.choice([2, 3]),)):
                xs = rng.sample([1, 2, 3, 4], n)
                cases.append(dict(kind="stateful", defkind=d, wrap=w, opts=[10 * x + rng.randint(1, 3) for x in xs], rounds=3))
    return cases


def do_stateful(C, case):
    family = f"stateful/{case['defkind']}/{case['wrap']}"
    C.evals += 1
    C.dist["stateful_runs"] = C.dist.get("stateful_runs", 0) + 1
    C.dist["families"]["stateful/" + case["defkind"]] = C.dist["families"].get("stateful/" + case["defkind"], 0) + 1
    try:
        got, errors = run_stateful(case)
    except Hang as e:
        C.hangs.append(dict(case, error=str(e)))
        return
    bad = oracle_stateful(case, got, errors)
    if bad:
        C.add_violation(family, bad, dict(case, observed={str(t): v for t, v in got.items()}))
    C.distinct.add(lib.stable_hash(["stateful", case["defkind"], case["wrap"], case["opts"]]))


# ----------------------------------------------------------------------------- the check

class Collector:
    def __init__(self, flags):
        self.flags = flags
        self.all_atomic = all(flags.values())
        self.cases = {}          # coq expr -> (impl obs, payload)
        self.mism = []
        self.viol = []
        self.viol_keys = set()
        self.hangs = []
        self.evals = 0
        self.distinct = set()
        self.dist = {"op_runs": 0, "line_runs": 0, "opcode_runs": 0, "line_mapped": 0, "forced_switches": 0,
                     "ops": {}, "families": {}, "both_computed": 0, "preemptions": {}}
        self.samples = []

    def count_ops(self, progs):
        for p in progs.values():
            for o in p:
                self.dist["ops"][o[0]] = self.dist["ops"].get(o[0], 0) + 1

    def add_case(self, expr, obs, payload):
        old = self.cases.get(expr)
        if old is None:
            self.cases[expr] = (obs, payload)
        elif old[0] != obs:
            self.mism.append(dict(where="two runs with the same effect order observed different results",
                                  scenario=payload, impl=obs, model=old[0]))

    def add_violation(self, family, bad, payload):
        key = (family, bad[0].split(":")[0])
        self.viol_count = getattr(self, "viol_count", 0) + 1
        if key in self.viol_keys or len(self.viol) >= 8:
            return
        self.viol_keys.add(key)
        self.viol.append(dict(desc=bad[0], all=bad[:4], family=family, finding=None, **payload))


def do_op_run(C, family, progs, sched, use_dataset=False):
    C.evals += 1
    C.dist["op_runs"] += 1
    C.dist["families"][family] = C.dist["families"].get(family, 0) + 1
    payload = dict(kind="op", progs={str(t): p for t, p in progs.items()}, sched=sched, use_dataset=use_dataset)
    try:
        obs, order, w = run_oplevel(progs, sched, use_dataset)
    except Hang as e:
        C.hangs.append(dict(payload, error=str(e)))
        return
    bad = oracle(progs, w, order)
    if bad:
        C.add_violation(family, bad, dict(payload, observed=obs))
    C.add_case(coq_case(C.flags, progs, sched, True), obs, payload)
    if len(progs) >= 2 and switches(sched) >= 2:
        C.distinct.add(lib.stable_hash([sorted(progs.items()), sched]))
    if len(C.samples) < 3 and switches(sched) >= 3:
        C.samples.append(dict(scenario=payload, observation=obs))


def do_line_explore(C, family, progs, files, bound, scan, opcodes, budget, rng):
    key = "opcode_runs" if opcodes else "line_runs"
    for r, P, start, err in explore_line(progs, files, bound, scan, opcodes=opcodes, budget=budget, rng=rng):
        C.evals += 1
        C.dist[key] += 1
        C.dist["families"][family] = C.dist["families"].get(family, 0) + 1
        C.dist["preemptions"][len(P)] = C.dist["preemptions"].get(len(P), 0) + 1
        payload = dict(kind="line", progs={str(t): p for t, p in progs.items()}, files=files,
                       preempts={str(k): v for k, v in P.items()}, start=start, opcodes=opcodes)
        if err:
            C.hangs.append(dict(payload, error=err))
            continue
        C.dist["forced_switches"] += r.forced
        ms = model_schedule(progs, r.order) if C.all_atomic else None
        bad = oracle(progs, r.w, ms[1] if ms else None)
        if bad:
            C.add_violation(family, bad, dict(payload, observed=r.obs,
                                              where=[list(r.trace[k][:3]) for k in sorted(P) if k < len(r.trace)]))
        if len(r.w.computes) > len(set(r.w.computes)):
            C.dist["both_computed"] += 1
        if ms:
            C.dist["line_mapped"] += 1
            C.add_case(coq_case(C.flags, progs, ms[0], False), r.obs, payload)
            C.distinct.add(lib.stable_hash([sorted(progs.items()), ms[0]]))
        if P and len(C.samples) < 6 and len(P) == bound:
            C.samples.append(dict(scenario=payload, observation=r.obs))


def run(ctx):
    t0 = time.time()
    rng = ctx.rng
    quick = ctx.quick
    mism, notes = [], []
    # 1. source scan -> flags -> generated obligations
    try:
        scan = scan_atomicity(lib.REPO)
        flags = scan["flags"]
    except ScanError as e:
        scan = {"lines": {}, "flags": None, "detail": {}, "info": {}}
        flags = {n: True for n in FLAG_NAMES}
        mism.append(dict(where="generated obligation (source scan refused: shape of the shared accesses not recognised)",
                         error=str(e), impl="unrecognised", model="accesses of _RUNTIMES/_PREVIOUS/self.lookup inside their locks"))
    obl = write_obligations(ctx, flags)
    for th, r in obl.items():
        if not r["ok"]:
            mism.append(dict(where=f"generated obligation {th}",
                             hypothesis=" /\\ ".join(f"{f} scanned_flags = true" for f in r["flags"]),
                             impl=f"{r['false_flags']} false in the source (a shared access is outside its lock)",
                             model="true",
                             accesses=[dict(d, function=fn) for fn, v in scan.get("detail", {}).items() for d in v if not d["locked"]][:6],
                             error=r["error"]))
    for n in FLAG_NAMES:
        if not flags[n] and n not in NEEDED:
            notes.append(f"{n} is false in the source; no theorem takes it as a hypothesis (isolation is proved for all flag "
                         f"values, assuming single dict operations are atomic under the GIL)")
    broke = bool(mism)
    C = Collector(flags)
    # 2. the model's losing schedule when the register flag is off
    if not flags["register_rmw_atomic"]:
        line = ctx.coq_eval("Lost_C15", ["Model.Threads", "Model.ThreadsRun"], COQ_PRELUDE,
                            [f"observe {coq_flags(flags)} [] [] lost_progs lost_sched"])[0]
        notes.append(f"model with register_rmw_atomic=false computes the losing schedule [1;2;1;2]: {line}")
    # 3. operation level
    for name, progs in FIXED_OP:
        C.count_ops(progs)
        ils = interleavings({t: len(p) for t, p in progs.items()})
        cap = 400 if quick else 5000
        if len(ils) > cap:
            ils = rng.sample(ils, cap)
        for sched in ils:
            do_op_run(C, "op/" + name, progs, sched, use_dataset=(name == "eval"))
    exhaustive_sets = len(FIXED_OP)
    # registrations through every public entry point on one dataset (own generator: the streams above and below are
    # the ones they were before these existed)
    rrng = random.Random(ctx.seed * 31 + 15)
    for name, progs in FIXED_OP_REG:
        C.count_ops(progs)
        ils = interleavings({t: len(p) for t, p in progs.items()})
        if len(ils) > (120 if quick else 2000):
            ils = rrng.sample(ils, 120 if quick else 2000)
        for sched in ils:
            do_op_run(C, "op/" + name, progs, sched)
    for i in range(150 if quick else 1500):
        kinds = rrng.choice([["reg"], ["reg", "register"], ["reg", "register", "eval", "handler"]])
        progs = gen_progs(rrng, rrng.choice([2, 3, 3]), rrng.choice([3, 4, 6]), kinds)
        C.count_ops(progs)
        do_op_run(C, "op/random-" + "+".join(kinds), progs, random_schedule(rrng, progs))
    for i in range(25 if quick else 80):
        kinds = rng.choice([["handler"], ["handler"], ["register"], ["eval"], ["handler", "register", "eval"]])
        progs = gen_progs(rng, rng.choice([2, 2, 3]), 3, kinds)
        C.count_ops(progs)
        ils = interleavings({t: len(p) for t, p in progs.items()})
        if len(ils) > (60 if quick else 400):
            ils = rng.sample(ils, 60 if quick else 400)
        for sched in ils:
            do_op_run(C, "op/small-" + "+".join(kinds), progs, sched)
    for i in range(1000 if quick else 6000):
        kinds = rng.choice([["handler"], ["handler", "register", "eval"], ["register", "eval"]])
        progs = gen_progs(rng, rng.choice([2, 3, 3]), rng.choice([4, 6, 8]), kinds)
        C.count_ops(progs)
        do_op_run(C, "op/random-" + "+".join(kinds), progs, random_schedule(rng, progs), use_dataset=(i % 5 == 0))
    # 3b. definitions that keep scratch state on themselves, evaluated by 2-3 threads at the same moment (oracle only: the
    # model's EvalCached has no notion of what the definition is made of)
    srng = random.Random(ctx.seed * 131 + 15)
    for case in gen_stateful(srng, quick):
        do_stateful(C, case)
    # 4. line level (and opcode level)
    deadline = t0 + (110 if quick else 1300)
    hard = broke  # an obligation broke: search harder
    for name, progs, files, lb, ob in FIXED_LINE:
        C.count_ops(progs)
        bound = lb[0] if quick else lb[1]
        lbud, obud = REG_BUDGET.get(name, (700, 500))
        do_line_explore(C, "line/" + name, progs, files, bound, scan, False, lbud if quick else 12000, rng)
        if ob is not None:
            obound = ob[0] if (quick and not hard) else ob[1]
            do_line_explore(C, "opcode/" + name, progs, files, obound, scan, True, obud if (quick and not hard) else 8000, rng)
    i = 0
    while time.time() < deadline and i < (12 if quick else 150):
        i += 1
        kinds, files = rng.choice([(["handler"], ["runtime.py"]), (["register"], ["overload.py"]),
                                   (["eval"], ["cache.py"]), (["handler", "register"], ["runtime.py", "overload.py"])])
        nthr = 2 if quick else rng.choice([2, 3])
        progs = gen_progs(rng, nthr, 3, kinds)
        C.count_ops(progs)
        do_line_explore(C, "line/random-" + "+".join(kinds), progs, files, 2 if quick else 3, scan, False,
                        150 if quick else 600, rng)
    i = 0
    while time.time() < deadline + 15 and i < (2 if quick else 40):
        i += 1
        files = rrng.choice([["overload.py"], ["overload.py", "dataset.py"]])
        progs = gen_progs(rrng, 2, 2, ["reg"] if i % 2 else ["reg", "register"])
        C.count_ops(progs)
        do_line_explore(C, "line/random-reg", progs, files, 2 if quick else 3, scan, False, 100 if quick else 600, rrng)
    # 5. stress
    sviol = []
    srounds = stress(60 if quick else 8000, sviol, time.time() + (10 if quick else 240))
    C.evals += srounds
    # 6. model on the same programs + schedules
    exprs = list(C.cases)
    # (thorough tier: at most 8 coqc processes at a time, each holds ~0.45 GB once the model is loaded)
    model_lines = ctx.coq_eval("Cases_C15", ["Model.Threads", "Model.ThreadsRun"], COQ_PRELUDE, exprs, shard=250,
                               **({} if quick else {"jobs": 8})) if exprs else []
    nm = 0
    for e, ml in zip(exprs, model_lines):
        obs, payload = C.cases[e]
        if ml != obs:
            nm += 1
            if len(C.mism) < 5:
                C.mism.append(dict(where="Model/Threads.v vs labrea (same programs, same schedule)", scenario=payload,
                                   impl=obs, model=ml))
    if C.hangs:
        raise RuntimeError(f"{len(C.hangs)} scenario(s) hung (harness error, not a violation): {C.hangs[0]}")
    dist = dict(C.dist, model_cases=len(exprs), mismatches=nm, stress_rounds=srounds, oracle_failures=getattr(C, "viol_count", 0),
                atomicity_flags=flags, scan_info=scan.get("info", {}), obligations={k: v["ok"] for k, v in obl.items()},
                wall_s=round(time.time() - t0, 1))
    return {
        "evaluations": C.evals,
        "distinct_nontrivial": len(C.distinct),
        "rule": "a run = (programs of 2-3 threads over Enter/Exit/Run/Inherit/Register/EvalCached, schedule); operation level: all "
                "interleavings of the fixed and small random program sets (sampled above the cap) + random schedules of larger ones; "
                "line level: all schedules with <= 2 (quick) / 3 (thorough) preemptions between lines of labrea/runtime.py, overload.py, "
                "cache.py (budgeted, frontier sampled beyond), opcode level with <= 1/2 preemptions for register/enter/inherit; stress "
                "rounds with switch interval 1e-6. Registrations also on ONE dataset through every public entry point (Overloaded.register, "
                "Dataset.register, @ds.overload(alias), @ds.overload([aliases]) with a function or a ready-made dataset, "
                "@Interface.implementation, @implements(..., alias=[...])), at all three levels and in every other stress round; opcode-level "
                "runs are preceded by one unscheduled run (CPython instruments code objects lazily). distinct = hash of (programs, effect-order schedule); non-trivial = >= 2 threads and "
                "the schedule switches thread at least twice (op level) or is a mapped line-level run.",
        "samples": C.samples,
        "traces_validated_against_impl": len(exprs),
        "correspondence_mismatches": (mism + C.mism)[:6],
        "violations": sorted(C.viol, key=lambda v: 0 if v["desc"].startswith(("isolation", "register", "cached", "inherit")) else 1) + sviol,
        "known": [],
        "distribution": dist,
        "exhaustive": False,
        "notes": notes,
        "assumptions": [
            "a single dict/list operation (get, setdefault, item store, append, pop) is atomic under the GIL; preemption inside one "
            "bytecode cannot be exhibited",
            "fresh Runtime() objects are observationally equal (handlers = the defaults, which no program here changes)",
            "equal fingerprints imply equal values (hypothesis of C15_concurrent_eval_own_value; holds for datasets whose value is a "
            "function of the options they read; conflating fingerprints belong to C03)",
            "programs are well nested (every Exit has a matching Enter)",
            "stateful-definition runs (a callable instance, a bound method of a stateful object, functools.partial over a mutable "
            "argument, mutable / stateful default arguments, stateful pipeline steps, as a dataset, a cached application, an overload, "
            "a dependency): 2-3 free-running threads meet at a barrier inside the body; oracle only (the value of options o is the "
            "rows of o alone, as in a solo evaluation), outside Model/Threads.v",
        ],
        "trusted_base": [
            "fail-closed ast scan (harness/props/c15.py scan_atomicity) producing the atomicity flags",
            "controlled schedulers (operation level: semaphores; line/opcode level: sys.settrace) and CPython's threading",
            "PARTIAL: bytecode-internal preemption, GIL dict atomicity, lock fairness and id()-keyed _LOCKS reuse are outside the model",
        ],
    }


def replay(ctx, payload):
    """re-run one recorded failing run (same programs, same schedule / preemption points) and re-evaluate
    the property's oracle and the model on it"""
    v = payload
    if v.get("kind") == "no-failing-input-found":
        try:
            scan = scan_atomicity(lib.REPO)
            obl = write_obligations(ctx, scan["flags"])
            bad = {k: r for k, r in obl.items() if not r["ok"]}
            return bool(bad), {"flags": scan["flags"], "failing_obligations": sorted(bad)}
        except ScanError as e:
            return True, {"scan_error": str(e)}
    if v.get("kind") == "stateful":
        got, errors = run_stateful(v)
        bad = oracle_stateful(v, got, errors)
        return bool(bad), {"oracle": bad[:4], "observed": {str(t): x for t, x in got.items()}}
    if v.get("kind") == "stress":
        sv = []
        n = stress(2000, sv, time.time() + 120)
        return bool(sv), {"rounds": n, "violations": sv[:2]}
    progs = {int(t): [tuple(tuple(x) if isinstance(x, list) else x for x in o) for o in p] for t, p in v["progs"].items()}
    try:
        scan = scan_atomicity(lib.REPO)
        flags = scan["flags"]
    except ScanError:
        scan, flags = {"lines": {}}, {n: True for n in FLAG_NAMES}
    if v.get("kind") == "op":
        obs, order, w = run_oplevel(progs, list(v["sched"]), v.get("use_dataset", False))
        bad = oracle(progs, w, order)
        ml = ctx.coq_eval("Replay_C15", ["Model.Threads", "Model.ThreadsRun"], COQ_PRELUDE,
                          [coq_case(flags, progs, list(v["sched"]), True)])[0]
        return bool(bad) or ml != obs, {"oracle": bad[:4], "impl": obs, "model": ml}
    P = {int(k): t for k, t in v["preempts"].items()}
    if v.get("opcodes", False):
        warm_up(progs, v["files"], scan)
    r = LineRun(progs, v["files"], P, start=v.get("start"), scan=scan, opcodes=v.get("opcodes", False))
    obs = r.go()
    ms = model_schedule(progs, r.order) if all(flags.values()) else None
    bad = oracle(progs, r.w, ms[1] if ms else None)
    detail = {"oracle": bad[:4], "impl": obs, "preempted_at": [list(r.trace[k][:3]) for k in sorted(P) if k < len(r.trace)]}
    if ms:
        detail["model"] = ctx.coq_eval("Replay_C15", ["Model.Threads", "Model.ThreadsRun"], COQ_PRELUDE,
                                       [coq_case(flags, progs, ms[0], False)])[0]
    return bool(bad) or (ms is not None and detail["model"] != obs), detail
