"""C10 - validate, keys and evaluate agree about whether options suffice.

Shared with C11 (props/c11.py imports this module): the quadruple runner (validate / keys /
explain / evaluate of one expression under one dictionary on a COLD graph -- a freshly built copy
per method -- and on a WARM graph -- evaluate first, then ask), the syntactic analyses of a scenario
(reachable nodes, chooser positions, total bodies, zones of the recorded findings), and the
model-agreement check used before an oracle failure is attributed to a recorded finding.

Everything the oracles decide is computed from the implementation's observations and from the
scenario's syntax tree; the Coq model is consulted only (a) by the correspondence run and (b) to
confirm that a failure attributed to a recorded finding is reproduced by the model.
"""
import re

import core
import coreprop as cp
import gen
import lib
from core import S, lit
from gen import K
from witnesses import corpus_for

PID = "C10"
COQ_TARGETS = cp.COQ_TARGETS
KNOWN = ["D1", "D4", "D6", "D9", "D13", "D20", "AO1"]
METHODS = ("validate", "keys", "explain", "evaluate")

# ----------------------------------------------------------------------------- syntax of scenarios


def children(scn, e):
    """direct sub-expressions of a node, as (role, expr) pairs; dataset references are expanded"""
    k = e[0]
    if k in ("value", "fnvalue", "alloptions"):
        return []
    if k == "option":
        return [(r, x) for r, x in (("default", e[2]), ("domain", e[3])) if x is not None]
    if k == "apply":
        return [("sub", e[1]), ("sub", e[2])]
    if k in ("bind", "switch"):
        return [("chooser", e[1])] + [("sub", x) for _, x in e[2]] + ([("sub", e[3])] if e[3] is not None else [])
    if k == "case":
        out = [("chooser", e[1])]
        for c, r in e[2]:
            out += [("chooser", c), ("sub", r)]
        return out + ([("sub", e[3])] if e[3] is not None else [])
    if k in ("coalesce", "iter", "list", "tuple", "pipe"):
        return [("sub", x) for x in e[1]]
    if k == "dict":
        return [("sub", x) for _, x in e[1]]
    if k == "map":
        return [("sub", e[1])] + [("chooser", x) for _, x in e[2]]
    if k in ("tolist", "logged"):
        return [("sub", e[1])]
    if k == "with":
        return [("sub", e[3])]
    if k == "cached":
        return [("sub", e[2])]
    if k in ("call", "pstep"):
        return [("sub", x) for x in e[2]]
    if k == "template":
        return [("sub", x) for _, x in e[2]]
    if k == "comp":
        return [("sub", e[1])] + [("effect", x) for x in e[2]]
    if k == "dataset":
        d = scn["env"][e[1]]
        while d.get("derived") is not None:
            d = scn["env"][d["derived"]]
        out = []
        if d.get("dispatch") is not None:
            out.append(("chooser", d["dispatch"]))
        out += [("sub", x) for _, x in d.get("overloads", [])]
        out += [("sub", x) for x in d.get("kwargs", [])]
        if d.get("callback") is not None:
            out.append(("sub", d["callback"]))
        out += [("effect", x) for x in d.get("effects", []) or []]
        return out
    raise TypeError(e)


def own_fid(scn, e):
    """the user function a node runs when it is evaluated (None: none)"""
    k = e[0]
    if k in ("fnvalue", "call", "pstep"):
        return e[1]
    if k == "dataset":
        d = scn["env"][e[1]]
        while d.get("derived") is not None:
            d = scn["env"][d["derived"]]
        return None if d.get("abstract") else d["fid"]
    return None


def nodes(scn, e, seen=None):
    """every node reachable from e (through dataset references too), each dataset once"""
    seen = set() if seen is None else seen
    out = [e]
    if e[0] == "dataset":
        if e[1] in seen:
            return out
        seen.add(e[1])
    for _, x in children(scn, e):
        out += nodes(scn, x, seen)
    return out


def all_fids(scn, e):
    return {f for f in (own_fid(scn, x) for x in nodes(scn, e)) if f is not None}


def chooser_fids(scn, e, seen=None):
    """the user functions validate()/keys()/explain() may run on e, from the property text: those
    inside a sub-expression in chooser position (bind source, switch/overload dispatch, case
    dispatch and conditions, map iterables) -- anything there is evaluated -- plus the domain of
    an Option (a present value is checked against it).  Computed on the syntax tree only."""
    seen = set() if seen is None else seen
    if e[0] == "dataset":
        if e[1] in seen:
            return set()
        seen.add(e[1])
    out = set()
    for role, x in children(scn, e):
        if role in ("chooser", "domain"):
            out |= all_fids(scn, x)
        else:
            out |= chooser_fids(scn, x, seen)
    return out


def total_bodies(scn, e):
    """no reachable user function is declared partial, and no bind function is partial"""
    for x in nodes(scn, e):
        f = own_fid(scn, x)
        if f is not None and scn["ftable"].get(f, ("tag",))[0] in ("raise", "tag_raise_on"):
            return False
        if x[0] == "bind" and x[3] is None:
            return False
    return True


def refs_in(j):
    """keys referenced from templated strings inside a scenario JSON value"""
    if isinstance(j, S):
        return [t[1] for t in j.toks if t[0] == "ref"]
    if isinstance(j, list):
        return [k for v in j for k in refs_in(v)]
    if isinstance(j, dict):
        return [k for v in j.values() for k in refs_in(v)]
    return []


def option_keys(scn, e):
    """every dotted key a reachable node may look up: Option keys and template references"""
    out = [x[1] for x in nodes(scn, e) if x[0] == "option"]
    for x in nodes(scn, e):
        if x[0] == "template":
            out += [t[1] for t in x[1] if t[0] == "ref"]
    return out


# ----------------------------------------------------------------------------- dictionaries (python side)

def lookup(po, text):
    """'found' / 'absent' / 'scalar' (a scalar parent on the path) for a dotted key in a python dict"""
    cur = po
    for part in text.split("."):
        if isinstance(cur, dict):
            if part not in cur:
                return "absent"
            cur = cur[part]
        elif isinstance(cur, list):
            if not part.isdigit() or int(part) >= len(cur):
                return "absent"
            cur = cur[int(part)]
        else:
            return "scalar"
    return "found"


def presets_of(scn, e):
    """every pre-set / default dictionary a reachable node overlays (scenario JSON)"""
    out = [x[2] for x in nodes(scn, e) if x[0] == "with"]
    for x in nodes(scn, e):
        if x[0] == "dataset":
            d = scn["env"][x[1]]
            while d is not None:
                out += [d[f] for f in ("options", "default_options", "preset") if d.get(f)]
                d = scn["env"][d["derived"]] if d.get("derived") is not None else None
    return out


def has_dict_value(j, top=True):
    if isinstance(j, dict):
        return (not top) or any(has_dict_value(v, False) for v in j.values())
    if isinstance(j, list):
        return any(has_dict_value(v, False) for v in j)
    return False


def has_templ(j):
    if isinstance(j, S):
        return any(t[0] in ("ref", "par") for t in j.toks)
    if isinstance(j, list):
        return any(has_templ(v) for v in j)
    if isinstance(j, dict):
        return any(has_templ(v) for v in j.values())
    return False


def scalar_parent_zone(scn, e, o):
    po = core.py_json(o)
    presets = [core.py_json(p) for p in presets_of(scn, e)]
    for k in option_keys(scn, e) + [k for d in [o] + presets_of(scn, e) for k in refs_in(d)]:
        t = core.key_text(k)
        if lookup(po, t) == "scalar" or any(lookup(p, t) == "scalar" for p in presets):
            return True
    # a pre-set / caller section overridden by a scalar (or the reverse)
    for p in presets:
        for name, v in p.items():
            if name in po and isinstance(v, dict) != isinstance(po[name], dict):
                return True
    return False


def has_container(j):
    return isinstance(j, (list, dict))


# ----------------------------------------------------------------------------- zones of recorded findings

def zones(scn, e, o):
    """the recorded findings whose syntactic zone (CORE_GUIDE table) contains (expression, dictionary)"""
    z = set()
    ns = nodes(scn, e)
    if any(cp.templ_in_container(v) for v in o.values()):
        z.add("D1")
    # D13: text substituted into a template is scanned again for references; the str() of a dict has
    # braces (a Template parameter, or a dict-valued option referenced from a template)
    dicts = [o] + presets_of(scn, e)
    dict_valued = any(has_dict_value(d) for d in dicts)
    if dict_valued and any(has_templ(v) for d in dicts for v in d.values()):
        z.add("D13")
    for x in ns:
        if x[0] == "case" and any(cp.has_option_read(c) for c, _ in x[2]):
            z.add("D3")
        if x[0] == "option" and x[3] is not None and cp.has_option_read(x[3]):
            z.add("D4")
        if x[0] == "comp" and any(cp.has_option_read(y) for y in x[2]):
            z.add("D9")
        if x[0] == "dataset":
            if any(role == "effect" and cp.has_option_read(y) for role, y in children(scn, x)):
                z.add("D9")
        if x[0] == "template" and (x[2] or dict_valued):
            z.add("D13")
        if x[0] == "coalesce" and len(x[1]) > 1:
            z.add("D20")
    if scalar_parent_zone(scn, e, o):
        z.add("D6")
    # AllOptions.keys() lists the top-level keys without resolving anything
    if any(x[0] == "alloptions" for x in ns) and any(has_templ(v) for d in dicts for v in d.values()):
        z.add("AO1")
    return z


# ----------------------------------------------------------------------------- running the implementation

CALL = re.compile(r"^c(\d+)\(")


def res_of(line):
    return cp.split(line)[0]


def ok(line):
    return res_of(line).startswith("ok:")


def cause(line):
    """the root cause of a failure as core.classify names it (deepest classified exception)"""
    r = res_of(line)
    return None if r.startswith("ok:") else r.split(":")[1]


def missing_key(line):
    c = cause(line)
    return c[4:-1] if c is not None and c.startswith("key(") else None


def called(line):
    return [int(m.group(1)) for t in cp.split(line)[1] for m in [CALL.match(t)] if m]


def keyset(line):
    body = res_of(line)[4:-1]
    return set(body.split(",")) if body else set()


def mini(scn, i, ops):
    return dict(ftable=scn["ftable"], env=scn["env"], exprs=[scn["exprs"][i]], ops=ops)


def cold_scns(scn, i, o):
    return [mini(scn, i, [(m, 0, False, False, o)]) for m in METHODS]


def warm_scn(scn, i, o, first):
    """first: the dictionary evaluated before asking (the same one, or another one of the pool);
    ("off", d): evaluate d first, then ask inside labrea.cache.disabled()"""
    off = isinstance(first, tuple)
    d = first[1] if off else first
    return mini(scn, i, [("evaluate", 0, False, False, d)] + [(m, 0, off, False, o) for m in METHODS])


def quad_cold(scn, i, o):
    """each method on its own freshly built copy of the graph (cold caches)"""
    return {m: core.run_impl(s)[0] for m, s in zip(METHODS, cold_scns(scn, i, o))}


def quad_warm(scn, i, o, first):
    """one freshly built graph: evaluate(first) first, then validate / keys / explain / evaluate under o"""
    lines = core.run_impl(warm_scn(scn, i, o, first))
    return dict(zip(METHODS, lines[1:]), first=lines[0])


def quad(scn, i, o, warm):
    """warm: None (cold) or the dictionary evaluated first"""
    return quad_cold(scn, i, o) if warm is None else quad_warm(scn, i, o, warm)


def model_info(ctx, name, items):
    """items: [(scn, i, o, first)] -> [(agrees, dirty)]: does the model reproduce the implementation on
    exactly these runs (tolerant comparison of coreprop), and does it flag a cache site used under a
    dictionary whose reads keys() does not report (the computed zone of the stale-cache findings)"""
    if not items:
        return []
    scns, spans = [], []
    for scn, i, o, first in items:
        ss = cold_scns(scn, i, o) if first is None else [warm_scn(scn, i, o, first)]
        spans.append((len(scns), len(ss)))
        scns += ss
    outs = ctx.coq_eval(name, cp.REQ, "", [core.coq_scenario(s) for s in scns], shard=40)
    res = []
    for a, n in spans:
        good, dirty = True, False
        for s, out in zip(scns[a:a + n], outs[a:a + n]):
            ml = out.split(" ## ")
            good = good and cp.agrees(core.run_impl(s), ml, s)
            dirty = dirty or any(cp.is_dirty(x) for x in ml)
        res.append((good, dirty))
    return res


# ----------------------------------------------------------------------------- the oracles of C10

def premise_total(scn, e, q):
    """bodies total and option values in their declared domains (the first sentence's premise)"""
    if not total_bodies(scn, e):
        return False
    return not any(cause(q[m]) == "domain" or (cause(q[m]) or "").startswith("user(") for m in ("validate", "keys", "evaluate"))


def oracle_c10(scn, i, o, q, first):
    """-> list of (kind, detail, candidate finding ids).  first: None on a cold graph, else the
    dictionary evaluated before asking"""
    e = scn["exprs"][i]
    out = []
    z = zones(scn, e, o)
    okv, okk, oke = ok(q["validate"]), ok(q["keys"]), ok(q["evaluate"])
    # 1. succeed or fail together (bodies total, values in domain)
    if premise_total(scn, e, q) and not (okv == okk == oke):
        cands = []
        if okk and not oke:      # keys() does not see what evaluate() needs
            cands = [f for f in ("D1", "D4", "D9", "D13", "AO1") if f in z]
        if okv and not oke:      # validate() passes, evaluate() fails
            cands = [f for f in ("D13", "D4", "D20") if f in z] or cands
        if "type" in (cause(q["validate"]), cause(q["keys"]), cause(q["evaluate"])) and "D6" in z:
            cands = ["D6"]       # a raw TypeError from a scalar parent on one side only
        out.append(("agree", dict(validate=res_of(q["validate"]), keys=res_of(q["keys"]), evaluate=res_of(q["evaluate"])), cands))
    # 2. a passing validate() guarantees evaluate() does not fail for a missing option
    if okv and missing_key(q["evaluate"]) is not None:
        out.append(("guard", dict(validate=res_of(q["validate"]), evaluate=res_of(q["evaluate"])),
                    [f for f in ("D20", "D13", "D4") if f in z]))
    # 3. validate()/keys() run only bodies in chooser position
    allowed = chooser_fids(scn, e)
    for m in ("validate", "keys"):
        extra = [f for f in called(q[m]) if f not in allowed]
        if extra:
            out.append(("bodies", dict(method=m, ran=extra, allowed=sorted(allowed), events=cp.split(q[m])[1]), []))
    return out


DESC = {
    "agree": "bodies are total and option values lie in their domains, yet validate(), keys() and evaluate() do not succeed or fail together",
    "guard": "validate() passes and evaluate() fails because of a missing option",
    "bodies": "validate()/keys() ran a body that is not in chooser position (bind source, switch/overload dispatch, case dispatch or condition, map iterable, option domain)",
}


# ----------------------------------------------------------------------------- witnesses of the recorded findings (C10 shapes)

def opt(k, d=None, dom=None):
    return ("option", k, d, dom)


def val(j):
    return ("value", ("j", j))


A, B, P, Q, X = 10, 11, 13, 14, 21
WIT = {
    "D1": dict(what="Option('A') on {'A': ['{B}']}: keys() == {'A'} succeeds, validate()/evaluate() fail (missing B): a templated string inside a container is resolved by evaluate, invisible to keys",
               scn=dict(ftable={}, env={}, exprs=[opt(K(A))], ops=[]), o={A: [S(("ref", K(B)))]}, kind="agree", first=None),
    "D4": dict(what="Option('A', default=1, domain=Option('P')) on {}: validate() and keys() pass, evaluate() fails for the missing option P read by the domain expression",
               scn=dict(ftable={}, env={}, exprs=[opt(K(A), val(1), opt(K(P)))], ops=[]), o={}, kind="guard", first=None),
    "D6": dict(what="WithOptions(Option('S.X'), {'S': {'X': 1}}, force=True) on {'S': 5}: validate() and evaluate() succeed (1), keys() raises a raw TypeError (the caller's scalar S is indexed)",
               scn=dict(ftable={}, env={}, exprs=[("with", True, {20: {X: 1}}, opt(K(20, X)))], ops=[]), o={20: 5}, kind="agree", first=None),
    "D9": dict(what="@dataset(effects=[step(prefix=Option('P'))]) e(a=Option('A')) on {'A': 1}: keys() == {'A'} succeeds, evaluate() fails cold (missing P)",
               scn=dict(ftable={100: ("tag",), 101: ("tag",)},
                        env={1: dict(fid=100, kwargs=[opt(K(A))], effects=[("pstep", 101, [opt(K(P))])])},
                        exprs=[("dataset", 1)], ops=[]), o={A: 1}, kind="agree", first=None),
    "D13": dict(what="Template('v{:p1:}', p1=Option('A')) on {'A': {'X': 1}}: validate() passes, evaluate() fails with KeyNotFoundError(\"'X': 1\") (the parameter's text is re-scanned for references)",
                scn=dict(ftable={}, env={}, exprs=[("template", (("lit", "v"), ("par", 1)), [(1, opt(K(A)))])], ops=[]), o={A: {X: 1}}, kind="guard", first=None),
    "AO1": dict(what="AllOptions on {'A': '{B}'}: keys() == {'A'} succeeds, validate()/evaluate() fail (the dictionary holds a reference to the missing option B)",
                    scn=dict(ftable={}, env={}, exprs=[("alloptions",)], ops=[]), o={A: S(("ref", K(B)))}, kind="agree", first=None),
    "D20": dict(what="Coalesce(f(a=Option('A')), Option('Q')) where f raises for a == 'b', on {'A': 'b'}: validate() passes, evaluate() fails with KeyNotFoundError('Q'); f's exception is not in the chain",
                scn=dict(ftable={100: ("tag_raise_on", ("j", lit("b")), 1)}, env={},
                         exprs=[("coalesce", [("call", 100, [opt(K(A))]), opt(K(Q))])], ops=[]), o={A: lit("b")}, kind="guard", first=None),
}


def witness_fails(w, oracle):
    q = quad(w["scn"], 0, w["o"], w["first"])
    return any(kind == w["kind"] for kind, _, _ in oracle(w["scn"], 0, w["o"], q, w["first"]))


# ----------------------------------------------------------------------------- generation

class ZoneGen(gen.Gen):
    """the C01 profile plus the shapes of the recorded findings D4 / D9 (an Option whose domain is
    itself an Option; a dataset effect whose callback reads an option), so that their zones are
    exercised by random scenarios too"""

    def option(self, depth=0):
        o = super().option(depth)
        if o[3] is None and depth < 2 and self.rng.random() < 0.06:
            o = (o[0], o[1], o[2], ("option", K(30), None, None))      # a list when present
        return o

    def dataset(self, dsid):
        super().dataset(dsid)
        d = self.env[dsid]
        if d.get("derived") is None and not d.get("effects") and self.rng.random() < 0.15:
            d["effects"] = [("pstep", self.newf(("tag",)), [self.option(3)])]      # depth 3: no dataset default (no cycle)


def targeted(ctx, n):
    """two structured families the random profile reaches only rarely:
    (a) a Map whose mapped key steers a branch of the repeated expression (each iteration needs other keys);
    (b) reference chains: templated option values referencing templated option values (depth 2-3),
        reached through a Template, an Option, or an Option's Template default"""
    rng = ctx.rng
    out = []
    leafkeys = [K(11), K(12), K(20, 21), K(20, 22), K(23, 24, 25)]
    for j in range(n):
        g = gen.Gen(rng, with_failing=False, with_domains=False, max_ds=1)
        if j % 2 == 0:
            mk = rng.choice([K(10), K(20, 21)])
            vals = rng.sample([1, 2, lit("a"), lit("b")], 2)
            ks = rng.sample(leafkeys, 2)
            branches = [(("j", v), rng.choice([opt(k), ("call", g.newf(("tag",)), [opt(k)]), opt(k, val(0))])) for v, k in zip(vals, ks)]
            disp = opt(mk) if rng.random() < 0.7 else ("call", g.newf(("first",)), [opt(mk)])
            inner = ("switch", disp, branches, None if rng.random() < 0.7 else val(0))
            its = [(mk, val(list(vals)) if rng.random() < 0.7 else opt(K(30), val(list(vals))))]
            m = ("map", inner, its)
            e = m if rng.random() < 0.4 else ("tolist", m)
            if rng.random() < 0.3:
                e = ("call", g.newf(("tag",)), [e])
            pool = []
            for _ in range(4):
                o = {}
                for k in ks:
                    if rng.random() < 0.6:
                        set_key(o, k, gen.rand_scalar(rng))
                if rng.random() < 0.3:
                    o[30] = list(vals) if rng.random() < 0.7 else [vals[0]]
                pool.append(o)
            pool.append({})
        else:
            chain = rng.sample([K(10), K(11), K(12), K(20, 21), K(20, 22)], rng.randint(2, 4))
            head = chain[0]
            e = rng.choice([("template", (("lit", "v"), ("ref", head)), []), opt(head),
                            opt(K(30), ("template", (("ref", head), ("lit", "/")), []))])
            if rng.random() < 0.3:
                e = ("coalesce", [e, val(lit("fallback"))])
            full = {}
            for a, b in zip(chain, chain[1:]):
                toks = [("ref", b)] if rng.random() < 0.5 else [("lit", "p"), ("ref", b), ("lit", "/")]
                set_key(full, a, S(*toks))
            set_key(full, chain[-1], gen.rand_scalar(rng))
            pool = [full]
            for k in chain:                        # drop one link at every depth
                o = deep_copy(full)
                del_key(o, k)
                pool.append(o)
            pool.append({})
        scn = dict(ftable=dict(g.ftable), env={}, exprs=[e, e], ops=[])
        out.append((scn, pool))
    return out


def set_key(o, k, v):
    for s_ in k[:-1]:
        o = o.setdefault(s_[1], {})
    o[k[-1][1]] = v


def del_key(o, k):
    for s_ in k[:-1]:
        o = o.get(s_[1], {})
    o.pop(k[-1][1], None)


def deep_copy(j):
    if isinstance(j, dict):
        return {k: deep_copy(v) for k, v in j.items()}
    if isinstance(j, list):
        return [deep_copy(v) for v in j]
    return j


def generate(ctx, n, failing_every=3):
    """the C01 profile; every third scenario may declare partial bodies; every fifth uses ZoneGen;
    plus n/10 structured scenarios (targeted)"""
    out = targeted(ctx, max(20, n // 10))
    for j in range(n):
        cls = ZoneGen if j % 5 == 4 else gen.Gen
        g = cls(ctx.rng, with_alloptions=(j % 10 == 0), preset_on_ds=0.3 if j % 2 else 0.0,
                with_failing=(j % failing_every == 0), with_domains=(j % 4 != 1))
        scn = g.scenario(n_exprs=2, depth=3, n_ops=0)
        out.append((scn, g.dict_pool()))
    return out


def history(ctx, scn, pool):
    """cold then warm on ONE long-lived graph, per dictionary: ask, evaluate, ask again"""
    rng = ctx.rng
    ops = []
    for o in rng.sample(pool, min(2, len(pool))):
        i = rng.randrange(len(scn["exprs"]))
        for m in ("validate", "keys", "explain", "evaluate", "validate", "keys", "explain"):
            ops.append((m, i, False, False, o))
    return dict(scn, ops=ops)


def modes(pool, j):
    """cold, warm after evaluating the same dictionary, warm after evaluating a neighbour of the pool"""
    o = pool[j]
    if len(pool) < 2:
        return [None, o, ("off", o)]
    other = pool[(j + 1) % len(pool)]
    return [None, o, other, ("off", other if j % 2 else o)]


def mode_name(o, first):
    if isinstance(first, tuple):
        return "warm-then-cache-disabled"
    return "cold" if first is None else ("warm" if first == o else "warm-other")


def run_oracles(ctx, pid, cases, oracle, desc, dicts_per_expr, extra=()):
    """shared driver: quadruples cold and warm for every (expression, dictionary).  A failure is
    attributed to a recorded finding only when the model reproduces exactly these runs AND
    (a) the (expression, dictionary) lies in the finding's syntactic zone, or (b) on a warm graph,
    the model flags the stale-cache zone (ghost event 'dirty': a cache site used under a
    dictionary whose reads keys() does not report) -- then the id is the one coreprop.zone_of names."""
    raw, checks, distinct, dist = [], 0, set(), {}
    for scn, pool in cases:
        for i in range(len(scn["exprs"])):
            for j in range(min(dicts_per_expr, len(pool))):
                o = pool[j]
                for first in modes(pool, j):
                    q = quad(scn, i, o, first)
                    checks += 1
                    tag = mode_name(o, first) + " " + "".join("1" if ok(q[m]) else "0" for m in METHODS)
                    dist[tag] = dist.get(tag, 0) + 1
                    if any(ok(q[m]) for m in METHODS) and not all(ok(q[m]) for m in METHODS):
                        distinct.add(lib.stable_hash([repr(scn["exprs"][i]), repr(o), repr(first)]))
                    for kind, detail, cands in oracle(scn, i, o, q, first):
                        raw.append((scn, i, o, first, kind, detail, cands))
    raw += list(extra)
    # failures that already occur on a cold graph are not cache-induced: no stale-cache attribution
    cold = {(id(scn), i, repr(o), kind) for scn, i, o, first, kind, detail, cands in raw if first is None}
    need = [(scn, i, o, first) for scn, i, o, first, kind, detail, cands in raw if cands or first is not None]
    info = iter(model_info(ctx, f"Zone_{pid}", need))
    violations, tagged = [], {}
    for scn, i, o, first, kind, detail, cands in raw:
        finding = None
        if cands or first is not None:
            agrees, dirty = next(info)
            if agrees and cands:
                finding = cands[0]
            elif agrees and dirty and kind != "bodies" and (id(scn), i, repr(o), kind) not in cold:
                finding = cp.zone_of(warm_scn(scn, i, o, first))
            if finding:
                tagged[finding] = tagged.get(finding, 0) + 1
        violations.append(dict(desc=desc[kind], oracle=kind, mode=mode_name(o, first), expr_index=i, options=repr(o),
                               first=None if first is None else repr(first), detail=detail, finding=finding,
                               zone_candidates=cands, scenario_repr=cp.dump_scn(dict(scn, ops=[]))))
    return violations, checks, distinct, dist, tagged


# ----------------------------------------------------------------------------- live objects outside the core language
#
# Dataset classes (below), option namespaces (props/c11.py) and graphs changed by a public mutator after
# they were first asked are evaluatables the scenario language of core.py cannot build.  They are built
# here from scenario pieces (members / implementations are ordinary scenario expressions built by
# core.Builder) and observed with the same canonical lines as core.run_impl; the event part keeps the
# calls of user functions only (c<fid>(...)).

def ask_obj(w, obj, m, po, off=False, value=None):
    """one method on a live object -> observation line.  value: how the result of evaluate is rendered"""
    import contextlib
    import labrea.cache
    w.calls.clear()
    try:
        with (labrea.cache.disabled() if off else contextlib.nullcontext()):
            if m == "evaluate":
                raw = obj.evaluate(po)
                r = "ok:" + core.show(value(raw) if value is not None else core.force(raw))
            elif m == "validate":
                obj.validate(po)
                r = "ok:()"
            elif m == "keys":
                r = "ok:" + core.show_keys(obj.keys(po))
            else:
                r = "ok:" + core.show_keys(obj.explain(po))
    except RecursionError:
        r = "err:fuel:F"
    except Exception as exc:  # noqa
        c, ee = core.classify(exc)
        r = f"err:{c}:{'T' if ee else 'F'}"
    return core.canon_names(r + "|" + " ".join(t for t in w.calls if CALL.match(t)))


def calls_only(line):
    """an observation line (of either side) with the event part reduced to the calls of user functions"""
    res, ev = cp.split(line)
    return res + "|" + " ".join(t for t in ev if CALL.match(t))


def live_correspondence(ctx, name, items, where):
    """items: [(impl lines, model scenario, description)]: the model runs the scenario, the lines are compared
    with coreprop's tolerant comparison on results + calls of user functions -> (ops compared, mismatches)"""
    if not items:
        return 0, []
    outs = ctx.coq_eval(name, cp.REQ, "", [core.coq_scenario(s) for _, s, _ in items], shard=30)
    mism, n = [], 0
    for (il, s, what), out in zip(items, outs):
        ml = out.split(" ## ")
        multi = cp._multi_ref(s["exprs"]) or cp._multi_ref(s["env"]) or cp._multi_ref([op[4] for op in s["ops"]])
        if len(ml) != len(il):
            mism.append(dict(where=where + " (line count)", scenario_repr=what))
            continue
        for oi, (op, a, b) in enumerate(zip(s["ops"], il, ml)):
            n += 1
            if not cp.same(calls_only(a), calls_only(cp.strip_ghost(b)), multi):
                mism.append(dict(where=where, op_index=oi, op=repr(op), impl=a, model=calls_only(cp.strip_ghost(b)), scenario_repr=what))
                break
            if "unmod" in cp.split(b)[0]:
                break
    return n, mism


SYNTAX_FREE = dict(ftable={}, env={}, exprs=[("value", ("j", 0))], ops=[])    # a total, zone-free stand-in for the syntax tree


# ----------------------------------------------------------------------------- dataset classes
#
# A class scenario is an ordinary scenario whose expressions are member expressions (props/c03.py ClassGen:
# zone-free, total), plus `cls`: a linear chain of class levels, root first, the LAST level being the class
# that is asked.  level = dict(kind, members=[(name, expr index, annotated, raw)]):
#   kind "plain"  an ordinary Python class                      "dc"   decorated with @datasetclass
#        "sub"    a bare `class L(previous level)` statement (a dataset class through the metaclass when the
#                 previous level is one)
# and optionally `mixin` = (level index, members): a second, plain base class of that level.
# annotated: declared `name: T = value` (else `name = value`); raw: a constant handed over as a plain Python
# value instead of a labrea Value.  What the class stands for is computed HERE from the scenario alone
# (class_members): per name the most derived declaration (the mixin is last in the MRO), names starting with
# "__" are not members, in dir() order; the class must then behave, for validate / keys / explain / evaluate,
# like the collection of those members (class_eff: the scenario the Coq model runs).

def class_members(scn):
    c = scn["cls"]
    eff = {}
    if c.get("mixin"):
        for m in c["mixin"][1]:
            eff[m[0]] = m[1]
    for lv in c["levels"]:
        for m in lv["members"]:
            eff[m[0]] = m[1]
    return [(nm, eff[nm]) for nm in sorted(eff) if not nm.startswith("__")]


def class_eff(scn):
    return dict(ftable=scn["ftable"], env=scn["env"], exprs=[("list", [scn["exprs"][i] for _, i in class_members(scn)])], ops=[])


def build_chain(scn):
    """-> (the class of the last level, World, rendering of an instance)"""
    import types
    import labrea
    from labrea.types import Evaluatable
    _, objs, w, b = core.run_impl(dict(scn, ops=[]), want_objects=True)

    def body(ms):
        ns = {}
        for nm, i, ann, raw in ms:
            e = scn["exprs"][i]
            ns[nm] = core.py_value(e[1]) if (raw and e[0] == "value") else objs[i]
        ns["__annotations__"] = {nm: object for nm, i, ann, raw in ms if ann}
        return ns
    c = scn["cls"]
    cur = None
    for li, lv in enumerate(c["levels"]):
        bases = () if cur is None else (cur,)
        if c.get("mixin") and c["mixin"][0] == li:
            bases += (type("Mixin", (), body(c["mixin"][1])),)
        k = types.new_class(f"L{li}", bases, exec_body=lambda ns, ms=lv["members"]: ns.update(body(ms)))
        cur = labrea.datasetclass(k) if lv["kind"] == "dc" else k
    names = [nm for nm, _ in class_members(scn)]

    def value(inst):
        vals = [getattr(inst, nm) for nm in names]
        return [("<member not evaluated>" if isinstance(v, Evaluatable) else core.force(v)) for v in vals]
    return cur, w, value


def class_quad(scn, o, first):
    """the quadruple of the class: cold = a freshly built class per method; warm = one class, evaluate(first) first"""
    po = core.py_json(o)
    if first is None:
        q = {}
        for m in METHODS:
            cls, w, value = build_chain(scn)
            q[m] = ask_obj(w, cls, m, po, value=value)
        return q
    off = isinstance(first, tuple)
    cls, w, value = build_chain(scn)
    q = dict(first=ask_obj(w, cls, "evaluate", core.py_json(first[1] if off else first), value=value))
    for m in METHODS:
        q[m] = ask_obj(w, cls, m, po, off=off, value=value)
    return q


def class_scenario(rng):
    """-> (class scenario, pool of dictionaries): 1-3 levels, members spread over the levels and an optional mixin,
    some re-declared at a more derived level; the pool holds a dictionary with every leaf key and, for every
    leaf key a member reads, the same dictionary without it (so a key needed ONLY by an inherited, an
    unannotated or an overridden member is missing once)"""
    from props import c03
    g = c03.ClassGen(rng)
    nlev = rng.choice([1, 2, 2, 2, 3])
    levels = [dict(kind=(rng.choice(["plain", "dc"]) if li == 0 else rng.choice(["dc", "dc", "sub"])), members=[]) for li in range(nlev)]
    if not any(lv["kind"] == "dc" for lv in levels):
        levels[-1]["kind"] = "dc"
    mixin = (rng.randrange(nlev), []) if rng.random() < 0.3 else None
    exprs = []

    def member(nm):
        e = g.member()
        exprs.append(e)
        return (nm, len(exprs) - 1, rng.random() < 0.7, e[0] == "value" and rng.random() < 0.5)
    slots = [lv["members"] for lv in levels] + ([mixin[1]] if mixin else [])
    where = {}
    for nm in rng.sample(c03.MEMBER_NAMES, rng.randint(2, 6)):
        si = rng.randrange(len(slots))
        slots[si].append(member(nm))
        where[nm] = si
    for nm, si in list(where.items()):                  # re-declared at a more derived level (the mixin is the least derived)
        above = list(range(nlev)) if si == nlev else list(range(si + 1, nlev))
        if above and rng.random() < 0.25:
            levels[rng.choice(above)]["members"].append(member(nm))
    scn = dict(ftable=dict(g.ftable), env=dict(g.env), exprs=exprs, ops=[], cls=dict(levels=levels, mixin=mixin))
    full = {gen.LST: [gen.rand_scalar(rng), gen.rand_scalar(rng)]}
    for lk in g.LEAVES[:6]:
        full = c03.put_path(full, lk, rng.choice([0, 1, 2, 5, lit("a"), lit("b"), True, None]))
    read = set(option_keys(scn, ("list", exprs)))
    pool = [full] + [c03.del_path(full, lk) for lk in g.LEAVES[:6] if lk in read] + [{}]
    pool += rng.sample(g.dict_pool(), 2)
    return scn, pool


def class_failures(scn, o, first, oracle):
    """-> (failures of the class that the collection of its members does not show, failures the members show too,
    the quadruple).  The second list is the members' own business (same attribution as any expression)."""
    eff = class_eff(scn)
    q = class_quad(scn, o, first)
    fails = oracle(eff, 0, o, q, first)
    if not fails:
        return [], [], q
    ql = quad(eff, 0, o, first)
    lk = {}
    for kind, detail, cands in oracle(eff, 0, o, ql, first):
        lk.setdefault(kind, (detail, cands))
    own = [(k, d) for k, d, c in fails if k not in lk]
    shared = [(eff, 0, o, first, k) + lk[k] for k in {k for k, d, c in fails if k in lk}]
    return own, shared, q


def class_stream(ctx, pid, n, oracle, desc):
    """dataset classes: the property's oracle on the class (cold for every dictionary of the pool, warm modes for
    the first three) and the correspondence class vs Model/Eval.v on the collection of its effective members
    -> dict(raw, violations, checks, ops, mismatches, patterns)"""
    rng = ctx.rng
    raw, viol, checks, dist, items = [], [], 0, {}, []
    for _ in range(n):
        scn, pool = class_scenario(rng)
        for j, o in enumerate(pool):
            for first in (modes(pool, j) if j < 3 else [None]):
                own, shared, q = class_failures(scn, o, first, oracle)
                checks += 1
                tag = "".join("1" if ok(q[m]) else "0" for m in METHODS)
                dist[tag] = dist.get(tag, 0) + 1
                raw += shared
                for kind, detail in own:
                    viol.append(dict(desc="dataset class: " + desc[kind], family="class", oracle=kind, mode=mode_name(o, first),
                                     options=repr(o), first=None if first is None else repr(first), detail=detail, finding=None,
                                     observed={m: res_of(q[m]) for m in METHODS},
                                     effective_members=[(nm, repr(scn["exprs"][i])[:200]) for nm, i in class_members(scn)],
                                     scenario_repr=cp.dump_scn(scn)))
        ops = []                                          # one long-lived class: ask, evaluate, ask again
        for o in rng.sample(pool, 2):
            ops += [(m, 0, False, False, o) for m in ("validate", "keys", "explain", "evaluate", "validate", "keys", "explain")]
        cls, w, value = build_chain(scn)
        il = [ask_obj(w, cls, op[0], core.py_json(op[4]), value=value) for op in ops]
        items.append((il, dict(class_eff(scn), ops=ops), cp.dump_scn(scn)))
    nops, mism = live_correspondence(ctx, f"Classes_{pid}", items, "dataset class vs Model/Eval.v on the collection of its effective members")
    return dict(raw=raw, violations=viol, checks=checks, ops=nops, mismatches=mism, patterns=dist, scenarios=n)


def replay_class(ctx, payload, oracle):
    scn = cp.load_scn(payload["scenario_repr"])
    o = eval(payload["options"], {"S": S})
    first = None if payload.get("first") is None else eval(payload["first"], {"S": S})
    own, shared, q = class_failures(scn, o, first, oracle)
    return bool(own), dict(oracle_failures=own, failures_of_the_members_themselves=[(x[4], x[5]) for x in shared], observed=q,
                           effective_members=[(nm, repr(scn["exprs"][i])) for nm, i in class_members(scn)], levels=scn["cls"])


# ----------------------------------------------------------------------------- option namespaces under the C10 oracle
#
# Generator, builder and the reading of a namespace as the collection of its effective options live in
# props/c11.py (imported lazily: c11 imports this module).  Here validate / keys / evaluate of the namespace, of
# every nested namespace and of members reached by attribute access are asked cold (a fresh namespace), warm
# (evaluate of the same / a neighbouring dictionary first, same object) and warmed-then-cache-disabled.
# Oracle only: Namespace.evaluate returns the populated section, which the model does not have.
#
# Recorded finding NS1 (findings/C10.json): Namespace._populate skips members that are not Option / Namespace
# instances, so `Option.auto(...) >> f` members are not evaluated (and a namespace made of such members only
# raises a raw KeyError).  A failure is attributed to NS1 only inside its zone, decided causally: the asked
# object is a namespace holding (itself or nested) an Option.auto member with >= 1 transformation, AND the same
# oracle clause no longer fails when every such member is replaced by the untransformed Option.auto(...).

def _c11():
    from props import c11
    return c11


def ns_sub(ns, attrs):
    for a in attrs:
        spec = dict(ns["members"]).get(a)
        if spec is None or spec[0] != "ns":
            return None
        ns = spec[1]
    return ns


def ns_has_transformed(ns):
    return any((spec[0] == "auto" and spec[2]) or (spec[0] == "ns" and ns_has_transformed(spec[1])) for _, spec in ns["members"])


def ns_untransformed(ns):
    ms = []
    for attr, spec in ns["members"]:
        if spec[0] == "auto":
            spec = ("auto", spec[1], [], spec[3])
        elif spec[0] == "ns":
            spec = ("ns", ns_untransformed(spec[1]))
        ms.append((attr, spec))
    return dict(ns, members=ms)


def ns_quad10(nscn, attrs, o, first):
    """validate / keys / explain / evaluate of one freshly built namespace object (after evaluate(first) when warm)"""
    w, obj = _c11().ns_object(nscn, attrs)
    off = isinstance(first, tuple)
    q = {}
    if first is not None:
        q["first"] = ask_obj(w, obj, "evaluate", core.py_json(first[1] if off else first))
    po = core.py_json(o)
    for m in METHODS:
        q[m] = ask_obj(w, obj, m, po, off=off)
    return q


def ns_target_expr(nscn, attrs):
    return dict(_c11().ns_targets(nscn["ns"], (nscn["ns"]["name"],)))[tuple(attrs)]


def in_zone_ns1(nscn, attrs, o, first, kind):
    sub = ns_sub(nscn["ns"], attrs)
    if sub is None or not ns_has_transformed(sub):
        return False
    plain = dict(nscn, ns=ns_untransformed(nscn["ns"]))
    eff = _c11().ns_eff(plain, ns_target_expr(plain, attrs))
    return not any(k == kind for k, _, _ in oracle_c10(eff, 0, o, ns_quad10(plain, attrs, o, first), first))


def namespace_failures(nscn, attrs, o, first):
    """-> ([(kind, detail, finding)] failures only the namespace shows, failures its options show too, quadruple)"""
    eff = _c11().ns_eff(nscn, ns_target_expr(nscn, attrs))
    q = ns_quad10(nscn, attrs, o, first)
    fails = oracle_c10(eff, 0, o, q, first)
    if not fails:
        return [], [], q
    lk = {}
    for kind, detail, cands in oracle_c10(eff, 0, o, quad(eff, 0, o, first), first):
        lk.setdefault(kind, (detail, cands))
    own = [(k, d, "NS1" if in_zone_ns1(nscn, attrs, o, first, k) else None) for k, d, c in fails if k not in lk]
    shared = [(eff, 0, o, first, k) + lk[k] for k in {k for k, d, c in fails if k in lk}]
    return own, shared, q


def namespace_stream10(ctx, n):
    rng = ctx.rng
    c11 = _c11()
    raw, viol, checks, dist, tagged = [], [], 0, {}, 0
    for _ in range(n):
        nscn, full, keys, bounded = c11.namespace_scenario(rng)
        pool = [full, {}]
        for k in keys:
            o = deep_copy(full)
            del_key(o, k)
            pool.append(o)
        for sec in {k[:-1] for k in keys if len(k) > 1}:
            o = deep_copy(full)
            del_key(o, sec)
            pool.append(o)
        o = deep_copy(full)
        set_key(o, K(nscn["ns"]["name"], 31), 1)
        pool.append(o)
        targets = c11.ns_targets(nscn["ns"], (nscn["ns"]["name"],))
        spaces = [t for t in targets if t[1][0] == "list"]
        leafs = [t for t in targets if t[1][0] != "list"]
        for attrs, expr in spaces + rng.sample(leafs, min(2, len(leafs))):
            for j, o in enumerate(pool):
                for first in (modes(pool, j) if j < 3 else [None]):
                    own, shared, q = namespace_failures(nscn, attrs, o, first)
                    checks += 1
                    tag = ("namespace " if expr[0] == "list" else "member ") + "".join("1" if ok(q[m]) else "0" for m in METHODS)
                    dist[tag] = dist.get(tag, 0) + 1
                    raw += shared
                    for kind, detail, finding in own:
                        tagged += finding is not None
                        viol.append(dict(desc="option namespace: " + DESC[kind], family="namespace", oracle=kind, mode=mode_name(o, first),
                                         options=repr(o), first=None if first is None else repr(first), detail=detail, finding=finding,
                                         asked=".".join(core.name_of(a) for a in attrs) or "<the namespace>", attrs=list(attrs),
                                         observed={m: res_of(q[m]) for m in METHODS}, stands_for=repr(expr)[:600], scenario_repr=cp.dump_scn(nscn)))
    return dict(raw=raw, violations=viol, checks=checks, patterns=dist, scenarios=n, tagged_NS1=tagged)


def replay_namespace10(ctx, payload):
    nscn = cp.load_scn(payload["scenario_repr"])
    o = eval(payload["options"], {"S": S})
    first = None if payload.get("first") is None else eval(payload["first"], {"S": S})
    own, shared, q = namespace_failures(nscn, tuple(payload["attrs"]), o, first)
    new = [(k, d) for k, d, f in own if f is None]
    return bool(new), dict(oracle_failures=new, recorded_findings_on_this_input=[(k, f) for k, d, f in own if f], observed=q,
                           failures_of_the_options_themselves=[(x[4], x[5]) for x in shared])


def ns1_witness():
    """the two recorded shapes of NS1, on the implementation -> (still fails, observations)"""
    from labrea import Option
    from labrea.exceptions import EvaluationError, KeyNotFoundError

    def out(f):
        try:
            return ("ok", f())
        except KeyNotFoundError as e:
            return ("missing", e.key)
        except EvaluationError as e:
            return ("error", type(e.__cause__).__name__)
    app = Option.namespace(type("APP", (), {"__annotations__": {"NAME": str}, "R": Option.auto() >> str.upper}))
    only = Option.namespace(type("ONLY", (), {"R": Option.auto(default="x") >> str.upper}))
    o1 = {"APP": {"NAME": "n"}}
    c1 = [out(lambda: app.validate(o1)), out(lambda: app.keys(o1)), out(lambda: app.evaluate(o1))]
    c2 = [out(lambda: only.validate({})), out(lambda: only.keys({})), out(lambda: only.evaluate({}))]
    f1 = c1[0] == c1[1] == ("missing", "APP.R") and c1[2][0] == "ok"
    f2 = c2[0][0] == c2[1][0] == "ok" and c2[2][0] == "error"
    return f1 or f2, dict(case1=repr(c1), case2=repr(c2))


NS1_WHAT = ("@Option.namespace class APP: NAME: str; R = Option.auto() >> str.upper on {'APP': {'NAME': 'n'}}: validate() and keys() raise "
            "KeyNotFoundError('APP.R') while evaluate() returns {'NAME': 'n'}; class ONLY: R = Option.auto(default='x') >> str.upper on {}: "
            "validate() and keys() pass, evaluate() raises EvaluationError from KeyError('ONLY')")


# ----------------------------------------------------------------------------- graphs changed after they were asked
#
# history = dict(scn, steps): scn declares datasets 1 (P: a dispatch and one overload), 2 and 3 (siblings derived
# from P with with_options / with_default_options: they share P's overload table), 4 (depends on one of them),
# 5 and 6 (implementations registered late); the asked objects are datasets 1-4 plus every dataset derived
# later.  steps: ("ask",) asks every object under every dictionary of `dicts` (None: explain() without an
# argument, validate / keys under {}), or a public mutator applied to object t:
#   ("register", t, [alias...], impl)  ("overload", t, [alias...], impl: a dataset)  ("set_dispatch", t, expr)
#   ("add_effects" | "add_effect", t, [expr])  ("disable_effects" | "enable_effects", t)  ("set_cache", t, "mem" | "none")
#   ("with_options" | "with_default_options", t, preset)      (the new dataset is asked from then on)
# Whatever the history, the answers an object gives at one moment must satisfy the property among themselves.

HOWS = ("with_options", "with_default_options")


def mutation_history(rng):
    keys = [K(11), K(12), K(20, 21), K(20, 22)]
    ka, kb, kc = rng.sample(keys, 3)
    v1, v2, v3 = rng.sample([1, 2, lit("a"), lit("b")], 3)
    r = rng.random()
    disp = None if r < 0.12 else (opt(K(10)) if r < 0.45 else opt(K(10), val(rng.choice([v1, v2, v2]))))
    p = dict(fid=100, kwargs=[opt(ka)])
    if disp is not None:
        p.update(dispatch=disp, overloads=[(("j", v1), val(0))])
    dep = ("dataset", rng.choice([1, 2, 2, 3]))
    env = {1: p,
           2: dict(derived=1, how=rng.choice(HOWS), preset={10: rng.choice([v1, v2, v2])}),
           3: dict(derived=1, how=rng.choice(HOWS), preset=rng.choice([{10: v2}, {10: v3}, {12: 1}])),
           4: dict(fid=101, kwargs=[dep if rng.random() < 0.6 else ("call", 106, [dep])]),
           5: dict(fid=102, kwargs=[opt(kb)]),
           6: dict(fid=103, kwargs=[opt(kc), opt(kb, val(1))])}
    scn = dict(ftable={f: ("tag",) for f in range(100, 108)}, env=env, exprs=[("dataset", i) for i in (1, 2, 3, 4)], ops=[])
    nobj = 4
    steps = [("ask",)]
    for _ in range(rng.randint(1, 3)):
        t = rng.choice([0, 0, 1, 1, 2] + list(range(3, nobj)))
        r = rng.random()
        if r < 0.5:
            alias = [rng.choice([v1, v2, v2, v3])] if rng.random() < 0.8 else [v2, v3]
            if rng.random() < 0.3:
                steps.append(("overload", t, alias, ("dataset", rng.choice([5, 6]))))
            else:
                steps.append(("register", t, alias, rng.choice([opt(kb), ("call", 104, [opt(kb)]), ("dataset", 5), ("dataset", 6), val(7)])))
        elif r < 0.62:
            steps.append(("set_dispatch", t, rng.choice([opt(K(10)), opt(K(10), val(v2)), opt(kc), opt(kc, val(v2)), val(v2)])))
        elif r < 0.70:
            steps.append((rng.choice(["add_effects", "add_effect"]), t, [("pstep", 105, [])]))
        elif r < 0.76:
            steps.append((rng.choice(["disable_effects", "enable_effects"]), t))
        elif r < 0.82:
            steps.append(("set_cache", t, rng.choice(["mem", "none"])))
        else:
            steps.append((rng.choice(HOWS), t, rng.choice([{10: v2}, {10: v1}, {10: v3}, {12: 1}])))
            nobj += 1
        steps.append(("ask",))
    sc = lambda: rng.choice([0, 1, 2, 5, lit("a")])  # noqa
    dicts = [{}, None, {10: v2}, {10: v1}]
    for present in ([ka], [kb], [ka, kb], [ka, kb, kc]):
        o = {10: rng.choice([v1, v2, v2, v3])} if rng.random() < 0.7 else {}
        for k in present:
            set_key(o, k, sc())
        dicts.append(o)
    return dict(scn=scn, steps=steps, dicts=dicts)


def run_history(hist, methods):
    """-> [(step index, object index, dictionary index, q)] for every ask; a mutator that raises is skipped"""
    from labrea.cache import MemoryCache, NoCache
    scn = hist["scn"]
    _, objs, w, b = core.run_impl(dict(scn, ops=[]), want_objects=True)
    objs = list(objs)
    out = []
    for si, st in enumerate(hist["steps"]):
        k = st[0]
        try:
            if k == "ask":
                for oi, obj in enumerate(objs):
                    for di, o in enumerate(hist["dicts"]):
                        po = None if o is None else core.py_json(o)
                        q = {m: ask_obj(w, obj, m, po if (m == "explain" or po is not None) else {}) for m in methods}
                        out.append((si, oi, di, q))
            elif k == "register":
                for a in st[2]:
                    objs[st[1]].register(core.py_value(("j", a)), b.build(st[3]))
            elif k == "overload":
                objs[st[1]].overload([core.py_value(("j", a)) for a in st[2]] if len(st[2]) > 1 else core.py_value(("j", st[2][0])))(b.build(st[3]))
            elif k == "set_dispatch":
                objs[st[1]].set_dispatch(b.build(st[2]))
            elif k in ("add_effects", "add_effect"):
                getattr(objs[st[1]], k)(*[b.build(e) for e in st[2]])
            elif k in ("disable_effects", "enable_effects"):
                getattr(objs[st[1]], k)()
            elif k == "set_cache":
                objs[st[1]].set_cache(MemoryCache() if st[2] == "mem" else NoCache)
            else:
                objs.append(getattr(objs[st[1]], k)(core.py_json(st[2])))
        except (ValueError, TypeError):
            if k == "ask":
                raise
    return out


def history_after(hist):
    """the scenario the history has built, when it is known without modelling the mutators: every mutator of the
    history is register / overload on P or one of its siblings (one shared table: appended to P's overloads)"""
    env = dict(hist["scn"]["env"])
    if env[1].get("dispatch") is None:
        return None
    extra = []
    for st in hist["steps"]:
        if st[0] == "ask":
            continue
        if st[0] not in ("register", "overload") or st[1] > 2:
            return None
        extra += [(("j", a), st[3]) for a in st[2]]
    env[1] = dict(env[1], overloads=list(env[1]["overloads"]) + extra)
    return dict(hist["scn"], env=env)


def history_oracle(q, o, oracle):
    """the relational clauses of the property on one moment's answers (no syntax tree: 'bodies' is not asked)"""
    full = dict({m: "ok:?|" for m in METHODS}, **q)
    return [(k, d) for k, d, c in oracle(SYNTAX_FREE, 0, {} if o is None else o, full, None) if k != "bodies"]


def history_stream(ctx, pid, n, oracle, desc, methods):
    """-> dict(violations, checks, ops, mismatches, mutators)"""
    rng = ctx.rng
    viol, checks, items, used = [], 0, [], {}
    for _ in range(n):
        hist = mutation_history(rng)
        for st in hist["steps"]:
            if st[0] != "ask":
                used[st[0]] = used.get(st[0], 0) + 1
        asks = run_history(hist, methods)
        seen = set()
        for si, oi, di, q in asks:
            checks += 1
            for kind, detail in history_oracle(q, hist["dicts"][di], oracle):
                if (kind, oi) in seen:
                    continue
                seen.add((kind, oi))
                viol.append(dict(desc="after a history of public mutators: " + desc[kind], family="history", oracle=kind, finding=None,
                                 at=dict(step=si, object=oi, options=repr(hist["dicts"][di]), steps_so_far=[repr(s) for s in hist["steps"][:si]]),
                                 detail=detail, observed={m: res_of(q[m]) for m in methods}, history=cp.dump_scn(hist)))
        after = history_after(hist)
        if after is not None and "evaluate" not in methods:      # nothing was evaluated: every answer is that of a cold graph
            last = max(si for si, _, _, _ in asks)
            sel = [(oi, di, q) for si, oi, di, q in asks if si == last and oi < 4]
            ops = [(m, oi, False, False, hist["dicts"][di] or {}) for oi, di, q in sel for m in methods]
            il = [q[m] for oi, di, q in sel for m in methods]
            items.append((il, dict(after, ops=ops), cp.dump_scn(hist)))
    nops, mism = live_correspondence(ctx, f"Histories_{pid}", items, "answers after late register/overload vs Model/Eval.v on the graph with the overloads declared up front")
    return dict(violations=viol, checks=checks, ops=nops, mismatches=mism, mutators=used, histories=n)


def replay_history(ctx, payload, oracle, methods):
    hist = cp.load_scn(payload["history"])
    fails = []
    for si, oi, di, q in run_history(hist, methods):
        for kind, detail in history_oracle(q, hist["dicts"][di], oracle):
            fails.append(dict(step=si, object=oi, options=repr(hist["dicts"][di]), oracle=kind, detail=detail))
    return bool(fails), dict(oracle_failures=fails[:6], steps=[repr(s) for s in hist["steps"]])


# ----------------------------------------------------------------------------- strings, names and numbers at the edges
#
# The property quantifies over ALL option dictionaries: string values (and option names) are arbitrary Python strings --
# non-ASCII, combining characters, astral code points, LONE SURROGATES (what os.fsdecode / sys.argv hand over for a file
# name that is not valid UTF-8), NUL and other control characters, whitespace, quotes, very long strings -- and integers
# are unbounded.  Model/EvalRun.v prints characters as bytes, so strings and names are ORACLE ONLY, decided by a
# metamorphic twin: every literal character of a scenario (expressions, function table, pre-sets, dictionaries) is
# replaced through an injective character map (edge_scenario), resp. some option names are given edge names
# (EdgeNames); labrea only ever compares, hashes, copies and serialises these strings, so the renamed scenario is an
# isomorphic one: whatever clause of the property's oracle fails on it and does NOT fail on the original is a violation
# (failures both show are the original's business: they go through the ordinary attribution of the main stream).
# Big integers are expressible in the model (Z): big_int_cases are ordinary cases of the main stream.

EDGE_IMAGES = ["\u00e9", "\u2603", "\U0001f600", "e\u0301", "\u0301", "\udce9", "\ud83d", "\x00", "\u202e", "\u2028", "\ufeff", "\x7f", "\t", "\n", " ", "\"", "'",
               "%s", "\u00df", "\u0130", "\udcff\udc80", "1", "-", "\u00a0"]
LONG_IMAGE = "x" * 20000
EDGE_NAMES = ["Kcaf\u00e9", "K\udce9n", "Kn\u0303", "K n", "K-n", "K\x00n", "K\U0001f600", "K" + "n" * 300, "K\u2028", "K'n", "K\"n", "K\tn", "K%s"]
NAME_ATOMS = [10, 12, 13, 20, 21, 24, 30]


def literal_chars(x, out):
    if isinstance(x, S):
        out.update(t[1] for t in x.toks if t[0] == "lit")
    elif isinstance(x, (tuple, list)):
        for y in x:
            literal_chars(y, out)
    elif isinstance(x, dict):
        for y in x.values():
            literal_chars(y, out)
    return out


def map_strings(x, cmap):
    """every literal character of every scenario string replaced by its image (one token per character of the image)"""
    if isinstance(x, S):
        toks = []
        for t in x.toks:
            if t[0] == "lit" and t[1] in cmap:
                toks += [("lit", c) for c in cmap[t[1]]]
            else:
                toks.append(t)
        return S(*toks)
    if isinstance(x, tuple):
        return tuple(map_strings(y, cmap) for y in x)
    if isinstance(x, list):
        return [map_strings(y, cmap) for y in x]
    if isinstance(x, dict):
        return {k: map_strings(v, cmap) for k, v in x.items()}
    return x


SURROGATES = ["\udce9", "\ud83d", "\udcff\udc80"]


def edge_map(rng, chars, prefer=(), multi=True):
    """an injective map of the literal characters that occur onto edge images (single images are distinct strings none
    of which is a prefix of another, except the very long run of 'x', which nothing else produces)"""
    chars = sorted(c for c in chars if c != "x")
    first = sorted(c for c in chars if c in prefer)
    rng.shuffle(first)
    rest = [c for c in chars if c not in prefer]
    rng.shuffle(rest)
    order = first + rest               # the characters of the dictionaries' values come first
    pool = [im for im in EDGE_IMAGES if multi or len(im) == 1]
    sur = [s_ for s_ in SURROGATES if multi or len(s_) == 1]
    images = rng.sample(pool, min(len(order), len(pool)))
    if order and rng.random() < 0.6 and not any(im in sur for im in images[:max(1, len(first))]):
        images[0] = rng.choice([s_ for s_ in sur if s_ not in images] or sur[:1])
    if multi and len(images) > 1 and rng.random() < 0.15:
        images[1] = LONG_IMAGE
    return dict(zip(order, images))


def char_level(scn, keys):
    """does the scenario look INSIDE strings (a dotted key indexing into a string value, a Map iterating over one)?  Then only
    one-code-point images keep the renamed scenario isomorphic"""
    if any(s_[0] == "i" for k in keys for s_ in k):
        return True
    return any(isinstance(t, tuple) and t and t[0] == "map" for t in cp.sub_exprs([scn["exprs"], scn["env"]]))


class EdgeNames:
    """context manager: some option / section names of the scenario language are edge strings on the implementation
    side (core.ALIASES, as props/c09.py does); observations are mapped back to the canonical names"""

    def __init__(self, names):
        self.names = dict(names)

    def __enter__(self):
        self.saved = (core.ALIASES, core.ALIASES_INV)
        if self.names:
            core.ALIASES = {**core.ALIASES, **self.names}
            core.ALIASES_INV = {v: k for k, v in core.ALIASES.items()}
        return self

    def __exit__(self, *a):
        core.ALIASES, core.ALIASES_INV = self.saved


def edge_failures(scn, i, o, first, cmap, names):
    """-> (clauses failing on the renamed scenario only [(kind, detail)], quadruple of the renamed, of the original or None)"""
    scn2, o2 = map_strings(dict(scn, ops=[]), cmap), map_strings(o, cmap)
    first2 = None if first is None else (("off", map_strings(first[1], cmap)) if isinstance(first, tuple) else map_strings(first, cmap))
    with EdgeNames(names):
        q2 = quad(scn2, i, o2, first2)
        fails2 = oracle_c10(scn2, i, o2, q2, first2)
    # the observations decide "values in their domains" by the absence of a ValueError; an encoding error is one too: when the
    # renamed scenario disagrees and that reading hides it, the ORIGINAL decides the premise (same values up to renaming)
    pattern2 = [ok(q2[m]) for m in ("validate", "keys", "evaluate")]
    hidden = len(set(pattern2)) > 1 and not any(k == "agree" for k, d, c in fails2) and total_bodies(scn, scn["exprs"][i])
    if not fails2 and not hidden:
        return [], q2, None
    q = quad(scn, i, o, first)
    shown = {k for k, d, c in oracle_c10(scn, i, o, q, first)}
    own = [(k, d) for k, d, c in fails2 if k not in shown]
    if hidden and "agree" not in shown and premise_total(scn, scn["exprs"][i], q) and len({ok(q[m]) for m in ("validate", "keys", "evaluate")}) == 1:
        own.append(("agree", dict(validate=res_of(q2["validate"])[:300], keys=res_of(q2["keys"])[:300], evaluate=res_of(q2["evaluate"])[:300],
                                  premise="on the original scenario the three methods agree and no value is outside its domain; the renamed values are "
                                          "in their domains exactly when the original ones are")))
    return own, q2, q


def renamed_text(o, cmap, names):
    with EdgeNames(names):
        return ascii(core.py_json(map_strings(o, cmap)))[:600]


def edge_stream(ctx, n):
    """-> dict(violations, checks, patterns, ...)"""
    rng = __import__("random").Random(ctx.seed * 31 + 1010)
    viol, checks, dist, kinds = [], 0, {}, {"strings": 0, "names": 0, "both": 0}
    surrogate = 0
    for j in range(n):
        g = gen.Gen(rng, with_alloptions=(j % 10 == 0), preset_on_ds=0.3 if j % 2 else 0.0, with_failing=(j % 4 == 0), with_domains=(j % 4 != 1))
        scn = g.scenario(n_exprs=2, depth=3, n_ops=0)
        pool = g.dict_pool()
        # a dictionary under which (nearly) every option the expressions read is present, mostly with string values
        full = deep_copy(pool[0])
        used = [k for e in scn["exprs"] for k in option_keys(scn, e)]
        for k in used:
            if all(s_[0] == "n" for s_ in k) and lookup(core.py_json(full), core.key_text(k)) == "absent" and rng.random() < 0.9:
                try:
                    set_key(full, k, rng.choice([lit("a"), lit("b"), lit("ab"), lit("a b"), 1]))
                except (AttributeError, TypeError):
                    pass
        if gen.LST not in full:
            full[gen.LST] = [lit("a"), lit("b")]
        pool = [full, pool[0]] + pool[2:]
        what = ("strings", "names", "both")[j % 3]
        kinds[what] += 1
        cmap = edge_map(rng, literal_chars([scn["exprs"], scn["env"], scn["ftable"], pool[:2]], set()), literal_chars(pool[:2], set()),
                        multi=not char_level(scn, used + [k for d in pool[:3] for k in refs_in(d)])) if what != "names" else {}
        names = {}
        if what != "strings":
            atoms = sorted({s_[1] for k in used for s_ in k if s_[0] == "n" and s_[1] in NAME_ATOMS}) or NAME_ATOMS
            atoms = rng.sample(atoms, min(3, len(atoms)))
            picked = rng.sample(EDGE_NAMES, len(atoms))
            if rng.random() < 0.6 and "K\udce9n" not in picked:
                picked[0] = "K\udce9n"
            names = dict(zip(atoms, picked))
        surrogate += any("\ud800" <= c <= "\udfff" for s_ in list(cmap.values()) + list(names.values()) for c in s_)
        for i in range(len(scn["exprs"])):
            for dj in range(min(2, len(pool))):
                o = pool[dj]
                for first in modes(pool, dj):
                    own, q2, q = edge_failures(scn, i, o, first, cmap, names)
                    checks += 1
                    tag = mode_name(o, first) + " " + "".join("1" if ok(q2[m]) else "0" for m in METHODS)
                    dist[tag] = dist.get(tag, 0) + 1
                    for kind, detail in own[:1]:
                        if len(viol) < 25:
                            viol.append(dict(desc="strings / option names at the edges (the scenario renamed through an injective character map / with edge option "
                                                  "names; the original scenario does not show this failure): " + DESC[kind], family="edge", oracle=kind,
                                             mode=mode_name(o, first), expr_index=i, options=repr(o), first=None if first is None else repr(first),
                                             character_map=repr(cmap), option_names=repr(names), detail=detail, finding=None,
                                             observed_renamed={m: res_of(q2[m])[:300] for m in METHODS}, observed_original={m: res_of(q[m])[:300] for m in METHODS},
                                             renamed_options=renamed_text(o, cmap, names), scenario_repr=cp.dump_scn(dict(scn, ops=[]))))
    return dict(violations=viol, checks=checks, patterns=dist, scenarios=n, by_kind=kinds, scenarios_with_a_lone_surrogate=surrogate)


def replay_edge(ctx, payload):
    scn = cp.load_scn(payload["scenario_repr"])
    o = eval(payload["options"], {"S": S})
    first = None if payload.get("first") is None else eval(payload["first"], {"S": S})
    own, q2, q = edge_failures(scn, payload["expr_index"], o, first, eval(payload["character_map"]), eval(payload["option_names"]))
    return bool(own), dict(oracle_failures_on_the_renamed_scenario_only=own, observed_renamed={m: res_of(q2[m])[:300] for m in METHODS},
                           observed_original=None if q is None else {m: res_of(q[m])[:300] for m in METHODS})


BIG = [10 ** 30, -(10 ** 25), 2 ** 64, 2 ** 63 - 1, -(2 ** 63) - 1, 10 ** 40]
HUGE = [10 ** 400, -(10 ** 1000), 2 ** 4000]      # printing these in Coq costs seconds each: oracle only


def big_ints(j, rng, keep, big=None):
    """scenario JSON with the integers (not the booleans) other than `keep` replaced by big ones, the same integer by the same big one"""
    table = {}

    def go(x):
        if isinstance(x, bool) or x is None or isinstance(x, S):
            return x
        if isinstance(x, int):
            if x in keep:
                return x
            if x not in table:
                table[x] = rng.choice(big or BIG) + x
            return table[x]
        if isinstance(x, list):
            return [go(y) for y in x]
        if isinstance(x, dict):
            return {k: go(v) for k, v in x.items()}
        return x
    return go(j)


def big_int_cases(ctx, n, huge=False):
    """ordinary cases whose dictionaries hold big integers: beyond 64 bits, negative, 40 digits (through the model too);
    huge=True: 400 - 1200 digits (the property's oracle only)"""
    rng = __import__("random").Random(ctx.seed * 31 + (1012 if huge else 1011))
    out = []
    for j in range(n):
        g = gen.Gen(rng, preset_on_ds=0.3 if j % 2 else 0.0, with_failing=False, with_domains=(j % 4 != 1))
        scn = g.scenario(n_exprs=2, depth=3, n_ops=0)
        out.append((scn, [big_ints(o, rng, keep=(0, 1) if j % 2 else (), big=HUGE if huge else None) for o in g.dict_pool()]))
    return out


def run(ctx):
    n = 1200 if ctx.quick else 12000
    corpus = corpus_for(PID)
    cases = [(dict(s, ops=[]), ([op[4] for op in s["ops"]][:3] or [{}])) for _, s in corpus] + generate(ctx, n)
    bigs = big_int_cases(ctx, 40 if ctx.quick else 400)
    cases += bigs
    hist = [s for _, s in corpus] + [history(ctx, scn, pool) for scn, pool in cases[len(corpus):]]
    huge = big_int_cases(ctx, 30 if ctx.quick else 300, huge=True)
    cases += huge          # after the histories: not through the model
    impls, models, mism, stats = cp.correspondence(ctx, hist, "Cases_C10")
    cl = class_stream(ctx, PID, 100 if ctx.quick else 1000, oracle_c10, DESC)
    hs = history_stream(ctx, PID, 60 if ctx.quick else 600, oracle_c10, DESC, METHODS)
    nsp = namespace_stream10(ctx, 30 if ctx.quick else 400)
    edge = edge_stream(ctx, 150 if ctx.quick else 1500)
    violations, checks, distinct, dist, tagged = run_oracles(ctx, PID, cases, oracle_c10, DESC, 3 if ctx.quick else 4, extra=cl["raw"] + nsp["raw"])
    ns_new = [v for v in nsp["violations"] if v["finding"] is None]
    violations += edge["violations"][:25]
    violations += cl["violations"][:25] + hs["violations"][:25] + ns_new[:25] + [v for v in nsp["violations"] if v["finding"]][:25]
    if nsp["tagged_NS1"]:
        tagged["NS1"] = nsp["tagged_NS1"]
    mism = mism + cl["mismatches"] + hs["mismatches"]
    known = [dict(id=fid, still_fails=witness_fails(WIT[fid], oracle_c10), what=WIT[fid]["what"]) for fid in KNOWN]
    ns1_fails, ns1_obs = ns1_witness()
    known.append(dict(id="NS1", still_fails=ns1_fails, what=NS1_WHAT, observed=ns1_obs))
    sample = []
    for scn, pool in cases[-3:]:
        q = quad_cold(scn, 0, pool[0])
        sample.append(dict(expr=repr(scn["exprs"][0])[:300], options=repr(pool[0])[:160], observed={m: q[m][:80] for m in METHODS}))
    return {
        "evaluations": stats["ops"] + 4 * checks + 4 * cl["checks"] + cl["ops"] + 4 * hs["checks"] + 4 * nsp["checks"] + 4 * edge["checks"],
        "distinct_nontrivial": len(distinct),
        "rule": "C01 profile (random expression graphs: datasets with overloads/pre-set/default options/callbacks/effects, options with defaults, "
                "domains and templated values, apply, bind, switch, case, coalesce, collections, Map, Template, WithOptions, cached); every third "
                "scenario declares partial bodies. For every (expression, dictionary of an adversarially perturbed pool): validate/keys/explain/"
                "evaluate each on a freshly built graph (cold), on one graph after evaluate of the same dictionary (warm) and after evaluate of a "
                "neighbouring dictionary (warm-other), and warmed then asked inside labrea.cache.disabled(). Dataset classes (chains of plain / "
                "@datasetclass / bare-subclass levels, a mixin, annotated / unannotated / raw-constant / re-declared members; dictionaries lacking each "
                "leaf key in turn): the same oracle on the class, and the class against the model on the collection of its effective members. "
                "Histories of public mutators (register / overload / set_dispatch / add_effects / add_effect / disable_effects / enable_effects / "
                "set_cache / with_options / with_default_options on a dataset, its parent, a sibling sharing the overload table, a dependency), "
                "every object asked under every dictionary (the empty one too) after every step (oracle only). Option namespaces (generator of props/c11.py: "
                "bare / named / nested, annotated / default / evaluatable-default / Option(KEY) / Option.auto with >> transformations and domains): the "
                "namespace, nested namespaces and members by attribute access under the sufficient dictionary and its neighbours, cold and warm (oracle "
                "only; failures caused by transformed Option.auto members are the recorded finding NS1, decided by removing the transformations). "
                "Strings and names at the edges (oracle only; the model prints bytes): random scenarios renamed through an injective map of their literal "
                "characters onto non-ASCII / combining / astral characters, LONE SURROGATES, NUL and control characters, whitespace, quotes, a 20000-character "
                "run, and / or with edge option and section names; cold and warm; a clause that fails on the renamed scenario and not on the original is a "
                "violation. Big integers in the dictionaries: beyond 64 bits, negative, 40 digits as ordinary cases through the model too; 400 - 1200 digits under the oracle only. Non-trivial = the four methods do not all succeed nor all fail; distinct by hash of "
                "(expression, dictionary, first dictionary). Correspondence: histories ask-evaluate-ask on one long-lived graph.",
        "samples": sample,
        "traces_validated_against_impl": stats["ops"] + cl["ops"],
        "correspondence_mismatches": mism[:5],
        "violations": violations,
        "known": known,
        "distribution": dict(stats, quadruples=checks, outcome_patterns_validate_keys_explain_evaluate=dist, oracle_failures_tagged=tagged,
                             scenarios=len(cases),
                             dataset_classes=dict(scenarios=cl["scenarios"], quadruples=cl["checks"], ops_vs_model=cl["ops"], patterns=cl["patterns"]),
                             mutator_histories=dict(histories=hs["histories"], moments_asked=hs["checks"], mutators=hs["mutators"]),
                             big_integer_scenarios=len(bigs), huge_integer_scenarios_oracle_only=len(huge),
                             edge_strings_and_names=dict(scenarios=edge["scenarios"], quadruples=edge["checks"], by_kind=edge["by_kind"],
                                                         scenarios_with_a_lone_surrogate=edge["scenarios_with_a_lone_surrogate"], patterns=edge["patterns"]),
                             namespaces=dict(scenarios=nsp["scenarios"], quadruples=nsp["checks"], patterns=nsp["patterns"], attributed_to_NS1=nsp["tagged_NS1"])),
        "exhaustive": False,
        "assumptions": ["user code is deterministic; 'bodies total' is read off the scenario (no reachable function is declared partial, no reachable bind function is partial) and "
                        "'values in their domains' off the observations (no domain / user failure among the three methods)",
                        "a failure is a missing-option failure when the deepest classified exception of the __cause__ chain is KeyNotFoundError",
                        "the theorems are about the cache-free reference instance; cold/warm caches are covered by this run only (PARTIAL)"],
        "trusted_base": ["chooser positions are recomputed from the scenario syntax tree by this module (children/chooser_fids), independently of the model",
                         "what a dataset class stands for (most derived declaration per name, mixin last in the MRO, '__' names excluded, dir() order) is computed "
                         "by this module from the scenario; the model runs the collection of those members (it has no classes)"],
    }


def replay_verdict(fails, agrees):
    """fails: [(kind, detail, candidate findings)].  A failure inside the zone of a recorded finding
    that the model reproduces is the recorded finding, not a regression."""
    new = [(k, d) for k, d, c in fails if not (c and agrees)]
    known = [(k, c[0]) for k, d, c in fails if c and agrees]
    return new, known


def replay(ctx, payload):
    if payload.get("family") == "class":
        return replay_class(ctx, payload, oracle_c10)
    if payload.get("family") == "history":
        return replay_history(ctx, payload, oracle_c10, METHODS)
    if payload.get("family") == "namespace":
        return replay_namespace10(ctx, payload)
    if payload.get("family") == "edge":
        return replay_edge(ctx, payload)
    scn = cp.load_scn(payload["scenario_repr"])
    i = payload["expr_index"]
    o = eval(payload["options"], {"S": S})
    first = None if payload.get("first") is None else eval(payload["first"], {"S": S})
    q = quad(scn, i, o, first)
    agrees, dirty = model_info(ctx, "Replay_C10", [(scn, i, o, first)])[0]
    new, known = replay_verdict(oracle_c10(scn, i, o, q, first), agrees)
    return bool(new) or not agrees, dict(oracle_failures=new, recorded_findings_on_this_input=known, observed=q, model_agrees=agrees)
