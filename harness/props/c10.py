"""C10 - validate, keys and evaluate agree about whether options suffice.

Shared with C11 (props/c11.py imports this module): the quadruple runner (validate / keys /
explain / evaluate of one expression under one dictionary on a COLD graph -- a freshly built copy
per method -- and on a WARM graph -- evaluate first, then ask), the syntactic analyses of a scenario
(reachable nodes, chooser positions, total bodies, zones of the recorded findings), and the
model-agreement check used before an oracle failure is attributed to a recorded finding.

Everything the oracles decide is computed from the implementation's observations and from the
scenario's syntax tree; the Coq model is consulted only (a) by the correspondence run and (b) to
confirm that a failure attributed to a recorded finding is reproduced by the model.
"""
import re

import core
import coreprop as cp
import gen
import lib
from core import S, lit
from gen import K
from witnesses import corpus_for

PID = "C10"
COQ_TARGETS = cp.COQ_TARGETS
KNOWN = ["D1", "D4", "D6", "D9", "D13", "D20", "AO1"]
METHODS = ("validate", "keys", "explain", "evaluate")

# ----------------------------------------------------------------------------- syntax of scenarios


def children(scn, e):
    """direct sub-expressions of a node, as (role, expr) pairs; dataset references are expanded"""
    k = e[0]
    if k in ("value", "fnvalue", "alloptions"):
        return []
    if k == "option":
        return [(r, x) for r, x in (("default", e[2]), ("domain", e[3])) if x is not None]
    if k == "apply":
        return [("sub", e[1]), ("sub", e[2])]
    if k in ("bind", "switch"):
        return [("chooser", e[1])] + [("sub", x) for _, x in e[2]] + ([("sub", e[3])] if e[3] is not None else [])
    if k == "case":
        out = [("chooser", e[1])]
        for c, r in e[2]:
            out += [("chooser", c), ("sub", r)]
        return out + ([("sub", e[3])] if e[3] is not None else [])
    if k in ("coalesce", "iter", "list", "tuple", "pipe"):
        return [("sub", x) for x in e[1]]
    if k == "dict":
        return [("sub", x) for _, x in e[1]]
    if k == "map":
        return [("sub", e[1])] + [("chooser", x) for _, x in e[2]]
    if k in ("tolist", "logged"):
        return [("sub", e[1])]
    if k == "with":
        return [("sub", e[3])]
    if k == "cached":
        return [("sub", e[2])]
    if k in ("call", "pstep"):
        return [("sub", x) for x in e[2]]
    if k == "template":
        return [("sub", x) for _, x in e[2]]
    if k == "comp":
        return [("sub", e[1])] + [("effect", x) for x in e[2]]
    if k == "dataset":
        d = scn["env"][e[1]]
        while d.get("derived") is not None:
            d = scn["env"][d["derived"]]
        out = []
        if d.get("dispatch") is not None:
            out.append(("chooser", d["dispatch"]))
        out += [("sub", x) for _, x in d.get("overloads", [])]
        out += [("sub", x) for x in d.get("kwargs", [])]
        if d.get("callback") is not None:
            out.append(("sub", d["callback"]))
        out += [("effect", x) for x in d.get("effects", []) or []]
        return out
    raise TypeError(e)


def own_fid(scn, e):
    """the user function a node runs when it is evaluated (None: none)"""
    k = e[0]
    if k in ("fnvalue", "call", "pstep"):
        return e[1]
    if k == "dataset":
        d = scn["env"][e[1]]
        while d.get("derived") is not None:
            d = scn["env"][d["derived"]]
        return None if d.get("abstract") else d["fid"]
    return None


def nodes(scn, e, seen=None):
    """every node reachable from e (through dataset references too), each dataset once"""
    seen = set() if seen is None else seen
    out = [e]
    if e[0] == "dataset":
        if e[1] in seen:
            return out
        seen.add(e[1])
    for _, x in children(scn, e):
        out += nodes(scn, x, seen)
    return out


def all_fids(scn, e):
    return {f for f in (own_fid(scn, x) for x in nodes(scn, e)) if f is not None}


def chooser_fids(scn, e, seen=None):
    """the user functions validate()/keys()/explain() may run on e, from the property text: those
    inside a sub-expression in chooser position (bind source, switch/overload dispatch, case
    dispatch and conditions, map iterables) -- anything there is evaluated -- plus the domain of
    an Option (a present value is checked against it).  Computed on the syntax tree only."""
    seen = set() if seen is None else seen
    if e[0] == "dataset":
        if e[1] in seen:
            return set()
        seen.add(e[1])
    out = set()
    for role, x in children(scn, e):
        if role in ("chooser", "domain"):
            out |= all_fids(scn, x)
        else:
            out |= chooser_fids(scn, x, seen)
    return out


def total_bodies(scn, e):
    """no reachable user function is declared partial, and no bind function is partial"""
    for x in nodes(scn, e):
        f = own_fid(scn, x)
        if f is not None and scn["ftable"].get(f, ("tag",))[0] in ("raise", "tag_raise_on"):
            return False
        if x[0] == "bind" and x[3] is None:
            return False
    return True


def refs_in(j):
    """keys referenced from templated strings inside a scenario JSON value"""
    if isinstance(j, S):
        return [t[1] for t in j.toks if t[0] == "ref"]
    if isinstance(j, list):
        return [k for v in j for k in refs_in(v)]
    if isinstance(j, dict):
        return [k for v in j.values() for k in refs_in(v)]
    return []


def option_keys(scn, e):
    """every dotted key a reachable node may look up: Option keys and template references"""
    out = [x[1] for x in nodes(scn, e) if x[0] == "option"]
    for x in nodes(scn, e):
        if x[0] == "template":
            out += [t[1] for t in x[1] if t[0] == "ref"]
    return out


# ----------------------------------------------------------------------------- dictionaries (python side)

def lookup(po, text):
    """'found' / 'absent' / 'scalar' (a scalar parent on the path) for a dotted key in a python dict"""
    cur = po
    for part in text.split("."):
        if isinstance(cur, dict):
            if part not in cur:
                return "absent"
            cur = cur[part]
        elif isinstance(cur, list):
            if not part.isdigit() or int(part) >= len(cur):
                return "absent"
            cur = cur[int(part)]
        else:
            return "scalar"
    return "found"


def presets_of(scn, e):
    """every pre-set / default dictionary a reachable node overlays (scenario JSON)"""
    out = [x[2] for x in nodes(scn, e) if x[0] == "with"]
    for x in nodes(scn, e):
        if x[0] == "dataset":
            d = scn["env"][x[1]]
            while d is not None:
                out += [d[f] for f in ("options", "default_options", "preset") if d.get(f)]
                d = scn["env"][d["derived"]] if d.get("derived") is not None else None
    return out


def has_dict_value(j, top=True):
    if isinstance(j, dict):
        return (not top) or any(has_dict_value(v, False) for v in j.values())
    if isinstance(j, list):
        return any(has_dict_value(v, False) for v in j)
    return False


def has_templ(j):
    if isinstance(j, S):
        return any(t[0] in ("ref", "par") for t in j.toks)
    if isinstance(j, list):
        return any(has_templ(v) for v in j)
    if isinstance(j, dict):
        return any(has_templ(v) for v in j.values())
    return False


def scalar_parent_zone(scn, e, o):
    po = core.py_json(o)
    presets = [core.py_json(p) for p in presets_of(scn, e)]
    for k in option_keys(scn, e) + [k for d in [o] + presets_of(scn, e) for k in refs_in(d)]:
        t = core.key_text(k)
        if lookup(po, t) == "scalar" or any(lookup(p, t) == "scalar" for p in presets):
            return True
    # a pre-set / caller section overridden by a scalar (or the reverse)
    for p in presets:
        for name, v in p.items():
            if name in po and isinstance(v, dict) != isinstance(po[name], dict):
                return True
    return False


def has_container(j):
    return isinstance(j, (list, dict))


# ----------------------------------------------------------------------------- zones of recorded findings

def zones(scn, e, o):
    """the recorded findings whose syntactic zone (CORE_GUIDE table) contains (expression, dictionary)"""
    z = set()
    ns = nodes(scn, e)
    if any(cp.templ_in_container(v) for v in o.values()):
        z.add("D1")
    # D13: text substituted into a template is scanned again for references; the str() of a dict has
    # braces (a Template parameter, or a dict-valued option referenced from a template)
    dicts = [o] + presets_of(scn, e)
    dict_valued = any(has_dict_value(d) for d in dicts)
    if dict_valued and any(has_templ(v) for d in dicts for v in d.values()):
        z.add("D13")
    for x in ns:
        if x[0] == "case" and any(cp.has_option_read(c) for c, _ in x[2]):
            z.add("D3")
        if x[0] == "option" and x[3] is not None and cp.has_option_read(x[3]):
            z.add("D4")
        if x[0] == "comp" and any(cp.has_option_read(y) for y in x[2]):
            z.add("D9")
        if x[0] == "dataset":
            if any(role == "effect" and cp.has_option_read(y) for role, y in children(scn, x)):
                z.add("D9")
        if x[0] == "template" and (x[2] or dict_valued):
            z.add("D13")
        if x[0] == "coalesce" and len(x[1]) > 1:
            z.add("D20")
    if scalar_parent_zone(scn, e, o):
        z.add("D6")
    # AllOptions.keys() lists the top-level keys without resolving anything
    if any(x[0] == "alloptions" for x in ns) and any(has_templ(v) for d in dicts for v in d.values()):
        z.add("AO1")
    return z


# ----------------------------------------------------------------------------- running the implementation

CALL = re.compile(r"^c(\d+)\(")


def res_of(line):
    return cp.split(line)[0]


def ok(line):
    return res_of(line).startswith("ok:")


def cause(line):
    """the root cause of a failure as core.classify names it (deepest classified exception)"""
    r = res_of(line)
    return None if r.startswith("ok:") else r.split(":")[1]


def missing_key(line):
    c = cause(line)
    return c[4:-1] if c is not None and c.startswith("key(") else None


def called(line):
    return [int(m.group(1)) for t in cp.split(line)[1] for m in [CALL.match(t)] if m]


def keyset(line):
    body = res_of(line)[4:-1]
    return set(body.split(",")) if body else set()


def mini(scn, i, ops):
    return dict(ftable=scn["ftable"], env=scn["env"], exprs=[scn["exprs"][i]], ops=ops)


def cold_scns(scn, i, o):
    return [mini(scn, i, [(m, 0, False, False, o)]) for m in METHODS]


def warm_scn(scn, i, o, first):
    """first: the dictionary evaluated before asking (the same one, or another one of the pool);
    ("off", d): evaluate d first, then ask inside labrea.cache.disabled()"""
    off = isinstance(first, tuple)
    d = first[1] if off else first
    return mini(scn, i, [("evaluate", 0, False, False, d)] + [(m, 0, off, False, o) for m in METHODS])


def quad_cold(scn, i, o):
    """each method on its own freshly built copy of the graph (cold caches)"""
    return {m: core.run_impl(s)[0] for m, s in zip(METHODS, cold_scns(scn, i, o))}


def quad_warm(scn, i, o, first):
    """one freshly built graph: evaluate(first) first, then validate / keys / explain / evaluate under o"""
    lines = core.run_impl(warm_scn(scn, i, o, first))
    return dict(zip(METHODS, lines[1:]), first=lines[0])


def quad(scn, i, o, warm):
    """warm: None (cold) or the dictionary evaluated first"""
    return quad_cold(scn, i, o) if warm is None else quad_warm(scn, i, o, warm)


def model_info(ctx, name, items):
    """items: [(scn, i, o, first)] -> [(agrees, dirty)]: does the model reproduce the implementation on
    exactly these runs (tolerant comparison of coreprop), and does it flag a cache site used under a
    dictionary whose reads keys() does not report (the computed zone of the stale-cache findings)"""
    if not items:
        return []
    scns, spans = [], []
    for scn, i, o, first in items:
        ss = cold_scns(scn, i, o) if first is None else [warm_scn(scn, i, o, first)]
        spans.append((len(scns), len(ss)))
        scns += ss
    outs = ctx.coq_eval(name, cp.REQ, "", [core.coq_scenario(s) for s in scns], shard=40)
    res = []
    for a, n in spans:
        good, dirty = True, False
        for s, out in zip(scns[a:a + n], outs[a:a + n]):
            ml = out.split(" ## ")
            good = good and cp.agrees(core.run_impl(s), ml, s)
            dirty = dirty or any(cp.is_dirty(x) for x in ml)
        res.append((good, dirty))
    return res


# ----------------------------------------------------------------------------- the oracles of C10

def premise_total(scn, e, q):
    """bodies total and option values in their declared domains (the first sentence's premise)"""
    if not total_bodies(scn, e):
        return False
    return not any(cause(q[m]) == "domain" or (cause(q[m]) or "").startswith("user(") for m in ("validate", "keys", "evaluate"))


def oracle_c10(scn, i, o, q, first):
    """-> list of (kind, detail, candidate finding ids).  first: None on a cold graph, else the
    dictionary evaluated before asking"""
    e = scn["exprs"][i]
    out = []
    z = zones(scn, e, o)
    okv, okk, oke = ok(q["validate"]), ok(q["keys"]), ok(q["evaluate"])
    # 1. succeed or fail together (bodies total, values in domain)
    if premise_total(scn, e, q) and not (okv == okk == oke):
        cands = []
        if okk and not oke:      # keys() does not see what evaluate() needs
            cands = [f for f in ("D1", "D4", "D9", "D13", "AO1") if f in z]
        if okv and not oke:      # validate() passes, evaluate() fails
            cands = [f for f in ("D13", "D4", "D20") if f in z] or cands
        if "type" in (cause(q["validate"]), cause(q["keys"]), cause(q["evaluate"])) and "D6" in z:
            cands = ["D6"]       # a raw TypeError from a scalar parent on one side only
        out.append(("agree", dict(validate=res_of(q["validate"]), keys=res_of(q["keys"]), evaluate=res_of(q["evaluate"])), cands))
    # 2. a passing validate() guarantees evaluate() does not fail for a missing option
    if okv and missing_key(q["evaluate"]) is not None:
        out.append(("guard", dict(validate=res_of(q["validate"]), evaluate=res_of(q["evaluate"])),
                    [f for f in ("D20", "D13", "D4") if f in z]))
    # 3. validate()/keys() run only bodies in chooser position
    allowed = chooser_fids(scn, e)
    for m in ("validate", "keys"):
        extra = [f for f in called(q[m]) if f not in allowed]
        if extra:
            out.append(("bodies", dict(method=m, ran=extra, allowed=sorted(allowed), events=cp.split(q[m])[1]), []))
    return out


DESC = {
    "agree": "bodies are total and option values lie in their domains, yet validate(), keys() and evaluate() do not succeed or fail together",
    "guard": "validate() passes and evaluate() fails because of a missing option",
    "bodies": "validate()/keys() ran a body that is not in chooser position (bind source, switch/overload dispatch, case dispatch or condition, map iterable, option domain)",
}


# ----------------------------------------------------------------------------- witnesses of the recorded findings (C10 shapes)

def opt(k, d=None, dom=None):
    return ("option", k, d, dom)


def val(j):
    return ("value", ("j", j))


A, B, P, Q, X = 10, 11, 13, 14, 21
WIT = {
    "D1": dict(what="Option('A') on {'A': ['{B}']}: keys() == {'A'} succeeds, validate()/evaluate() fail (missing B): a templated string inside a container is resolved by evaluate, invisible to keys",
               scn=dict(ftable={}, env={}, exprs=[opt(K(A))], ops=[]), o={A: [S(("ref", K(B)))]}, kind="agree", first=None),
    "D4": dict(what="Option('A', default=1, domain=Option('P')) on {}: validate() and keys() pass, evaluate() fails for the missing option P read by the domain expression",
               scn=dict(ftable={}, env={}, exprs=[opt(K(A), val(1), opt(K(P)))], ops=[]), o={}, kind="guard", first=None),
    "D6": dict(what="WithOptions(Option('S.X'), {'S': {'X': 1}}, force=True) on {'S': 5}: validate() and evaluate() succeed (1), keys() raises a raw TypeError (the caller's scalar S is indexed)",
               scn=dict(ftable={}, env={}, exprs=[("with", True, {20: {X: 1}}, opt(K(20, X)))], ops=[]), o={20: 5}, kind="agree", first=None),
    "D9": dict(what="@dataset(effects=[step(prefix=Option('P'))]) e(a=Option('A')) on {'A': 1}: keys() == {'A'} succeeds, evaluate() fails cold (missing P)",
               scn=dict(ftable={100: ("tag",), 101: ("tag",)},
                        env={1: dict(fid=100, kwargs=[opt(K(A))], effects=[("pstep", 101, [opt(K(P))])])},
                        exprs=[("dataset", 1)], ops=[]), o={A: 1}, kind="agree", first=None),
    "D13": dict(what="Template('v{:p1:}', p1=Option('A')) on {'A': {'X': 1}}: validate() passes, evaluate() fails with KeyNotFoundError(\"'X': 1\") (the parameter's text is re-scanned for references)",
                scn=dict(ftable={}, env={}, exprs=[("template", (("lit", "v"), ("par", 1)), [(1, opt(K(A)))])], ops=[]), o={A: {X: 1}}, kind="guard", first=None),
    "AO1": dict(what="AllOptions on {'A': '{B}'}: keys() == {'A'} succeeds, validate()/evaluate() fail (the dictionary holds a reference to the missing option B)",
                    scn=dict(ftable={}, env={}, exprs=[("alloptions",)], ops=[]), o={A: S(("ref", K(B)))}, kind="agree", first=None),
    "D20": dict(what="Coalesce(f(a=Option('A')), Option('Q')) where f raises for a == 'b', on {'A': 'b'}: validate() passes, evaluate() fails with KeyNotFoundError('Q'); f's exception is not in the chain",
                scn=dict(ftable={100: ("tag_raise_on", ("j", lit("b")), 1)}, env={},
                         exprs=[("coalesce", [("call", 100, [opt(K(A))]), opt(K(Q))])], ops=[]), o={A: lit("b")}, kind="guard", first=None),
}


def witness_fails(w, oracle):
    q = quad(w["scn"], 0, w["o"], w["first"])
    return any(kind == w["kind"] for kind, _, _ in oracle(w["scn"], 0, w["o"], q, w["first"]))


# ----------------------------------------------------------------------------- generation

class ZoneGen(gen.Gen):
    """the C01 profile plus the shapes of the recorded findings D4 / D9 (an Option whose domain is
    itself an Option; a dataset effect whose callback reads an option), so that their zones are
    exercised by random scenarios too"""

    def option(self, depth=0):
        o = super().option(depth)
        if o[3] is None and depth < 2 and self.rng.random() < 0.06:
            o = (o[0], o[1], o[2], ("option", K(30), None, None))      # a list when present
        return o

    def dataset(self, dsid):
        super().dataset(dsid)
        d = self.env[dsid]
        if d.get("derived") is None and not d.get("effects") and self.rng.random() < 0.15:
            d["effects"] = [("pstep", self.newf(("tag",)), [self.option(3)])]      # depth 3: no dataset default (no cycle)


def targeted(ctx, n):
    """two structured families the random profile reaches only rarely:
    (a) a Map whose mapped key steers a branch of the repeated expression (each iteration needs other keys);
    (b) reference chains: templated option values referencing templated option values (depth 2-3),
        reached through a Template, an Option, or an Option's Template default"""
    rng = ctx.rng
    out = []
    leafkeys = [K(11), K(12), K(20, 21), K(20, 22), K(23, 24, 25)]
    for j in range(n):
        g = gen.Gen(rng, with_failing=False, with_domains=False, max_ds=1)
        if j % 2 == 0:
            mk = rng.choice([K(10), K(20, 21)])
            vals = rng.sample([1, 2, lit("a"), lit("b")], 2)
            ks = rng.sample(leafkeys, 2)
            branches = [(("j", v), rng.choice([opt(k), ("call", g.newf(("tag",)), [opt(k)]), opt(k, val(0))])) for v, k in zip(vals, ks)]
            disp = opt(mk) if rng.random() < 0.7 else ("call", g.newf(("first",)), [opt(mk)])
            inner = ("switch", disp, branches, None if rng.random() < 0.7 else val(0))
            its = [(mk, val(list(vals)) if rng.random() < 0.7 else opt(K(30), val(list(vals))))]
            m = ("map", inner, its)
            e = m if rng.random() < 0.4 else ("tolist", m)
            if rng.random() < 0.3:
                e = ("call", g.newf(("tag",)), [e])
            pool = []
            for _ in range(4):
                o = {}
                for k in ks:
                    if rng.random() < 0.6:
                        set_key(o, k, gen.rand_scalar(rng))
                if rng.random() < 0.3:
                    o[30] = list(vals) if rng.random() < 0.7 else [vals[0]]
                pool.append(o)
            pool.append({})
        else:
            chain = rng.sample([K(10), K(11), K(12), K(20, 21), K(20, 22)], rng.randint(2, 4))
            head = chain[0]
            e = rng.choice([("template", (("lit", "v"), ("ref", head)), []), opt(head),
                            opt(K(30), ("template", (("ref", head), ("lit", "/")), []))])
            if rng.random() < 0.3:
                e = ("coalesce", [e, val(lit("fallback"))])
            full = {}
            for a, b in zip(chain, chain[1:]):
                toks = [("ref", b)] if rng.random() < 0.5 else [("lit", "p"), ("ref", b), ("lit", "/")]
                set_key(full, a, S(*toks))
            set_key(full, chain[-1], gen.rand_scalar(rng))
            pool = [full]
            for k in chain:                        # drop one link at every depth
                o = deep_copy(full)
                del_key(o, k)
                pool.append(o)
            pool.append({})
        scn = dict(ftable=dict(g.ftable), env={}, exprs=[e, e], ops=[])
        out.append((scn, pool))
    return out


def set_key(o, k, v):
    for s_ in k[:-1]:
        o = o.setdefault(s_[1], {})
    o[k[-1][1]] = v


def del_key(o, k):
    for s_ in k[:-1]:
        o = o.get(s_[1], {})
    o.pop(k[-1][1], None)


def deep_copy(j):
    if isinstance(j, dict):
        return {k: deep_copy(v) for k, v in j.items()}
    if isinstance(j, list):
        return [deep_copy(v) for v in j]
    return j


def generate(ctx, n, failing_every=3):
    """the C01 profile; every third scenario may declare partial bodies; every fifth uses ZoneGen;
    plus n/10 structured scenarios (targeted)"""
    out = targeted(ctx, max(20, n // 10))
    for j in range(n):
        cls = ZoneGen if j % 5 == 4 else gen.Gen
        g = cls(ctx.rng, with_alloptions=(j % 10 == 0), preset_on_ds=0.3 if j % 2 else 0.0,
                with_failing=(j % failing_every == 0), with_domains=(j % 4 != 1))
        scn = g.scenario(n_exprs=2, depth=3, n_ops=0)
        out.append((scn, g.dict_pool()))
    return out


def history(ctx, scn, pool):
    """cold then warm on ONE long-lived graph, per dictionary: ask, evaluate, ask again"""
    rng = ctx.rng
    ops = []
    for o in rng.sample(pool, min(2, len(pool))):
        i = rng.randrange(len(scn["exprs"]))
        for m in ("validate", "keys", "explain", "evaluate", "validate", "keys", "explain"):
            ops.append((m, i, False, False, o))
    return dict(scn, ops=ops)


def modes(pool, j):
    """cold, warm after evaluating the same dictionary, warm after evaluating a neighbour of the pool"""
    o = pool[j]
    if len(pool) < 2:
        return [None, o, ("off", o)]
    other = pool[(j + 1) % len(pool)]
    return [None, o, other, ("off", other if j % 2 else o)]


def mode_name(o, first):
    if isinstance(first, tuple):
        return "warm-then-cache-disabled"
    return "cold" if first is None else ("warm" if first == o else "warm-other")


def run_oracles(ctx, pid, cases, oracle, desc, dicts_per_expr, extra=()):
    """shared driver: quadruples cold and warm for every (expression, dictionary).  A failure is
    attributed to a recorded finding only when the model reproduces exactly these runs AND
    (a) the (expression, dictionary) lies in the finding's syntactic zone, or (b) on a warm graph,
    the model flags the stale-cache zone (ghost event 'dirty': a cache site used under a
    dictionary whose reads keys() does not report) -- then the id is the one coreprop.zone_of names."""
    raw, checks, distinct, dist = [], 0, set(), {}
    for scn, pool in cases:
        for i in range(len(scn["exprs"])):
            for j in range(min(dicts_per_expr, len(pool))):
                o = pool[j]
                for first in modes(pool, j):
                    q = quad(scn, i, o, first)
                    checks += 1
                    tag = mode_name(o, first) + " " + "".join("1" if ok(q[m]) else "0" for m in METHODS)
                    dist[tag] = dist.get(tag, 0) + 1
                    if any(ok(q[m]) for m in METHODS) and not all(ok(q[m]) for m in METHODS):
                        distinct.add(lib.stable_hash([repr(scn["exprs"][i]), repr(o), repr(first)]))
                    for kind, detail, cands in oracle(scn, i, o, q, first):
                        raw.append((scn, i, o, first, kind, detail, cands))
    raw += list(extra)
    # failures that already occur on a cold graph are not cache-induced: no stale-cache attribution
    cold = {(id(scn), i, repr(o), kind) for scn, i, o, first, kind, detail, cands in raw if first is None}
    need = [(scn, i, o, first) for scn, i, o, first, kind, detail, cands in raw if cands or first is not None]
    info = iter(model_info(ctx, f"Zone_{pid}", need))
    violations, tagged = [], {}
    for scn, i, o, first, kind, detail, cands in raw:
        finding = None
        if cands or first is not None:
            agrees, dirty = next(info)
            if agrees and cands:
                finding = cands[0]
            elif agrees and dirty and kind != "bodies" and (id(scn), i, repr(o), kind) not in cold:
                finding = cp.zone_of(warm_scn(scn, i, o, first))
            if finding:
                tagged[finding] = tagged.get(finding, 0) + 1
        violations.append(dict(desc=desc[kind], oracle=kind, mode=mode_name(o, first), expr_index=i, options=repr(o),
                               first=None if first is None else repr(first), detail=detail, finding=finding,
                               zone_candidates=cands, scenario_repr=cp.dump_scn(dict(scn, ops=[]))))
    return violations, checks, distinct, dist, tagged


def run(ctx):
    n = 1200 if ctx.quick else 12000
    corpus = corpus_for(PID)
    cases = [(dict(s, ops=[]), ([op[4] for op in s["ops"]][:3] or [{}])) for _, s in corpus] + generate(ctx, n)
    hist = [s for _, s in corpus] + [history(ctx, scn, pool) for scn, pool in cases[len(corpus):]]
    impls, models, mism, stats = cp.correspondence(ctx, hist, "Cases_C10")
    violations, checks, distinct, dist, tagged = run_oracles(ctx, PID, cases, oracle_c10, DESC, 3 if ctx.quick else 4)
    known = [dict(id=fid, still_fails=witness_fails(WIT[fid], oracle_c10), what=WIT[fid]["what"]) for fid in KNOWN]
    sample = []
    for scn, pool in cases[-3:]:
        q = quad_cold(scn, 0, pool[0])
        sample.append(dict(expr=repr(scn["exprs"][0])[:300], options=repr(pool[0])[:160], observed={m: q[m][:80] for m in METHODS}))
    return {
        "evaluations": stats["ops"] + 4 * checks,
        "distinct_nontrivial": len(distinct),
        "rule": "C01 profile (random expression graphs: datasets with overloads/pre-set/default options/callbacks/effects, options with defaults, "
                "domains and templated values, apply, bind, switch, case, coalesce, collections, Map, Template, WithOptions, cached); every third "
                "scenario declares partial bodies. For every (expression, dictionary of an adversarially perturbed pool): validate/keys/explain/"
                "evaluate each on a freshly built graph (cold), on one graph after evaluate of the same dictionary (warm) and after evaluate of a "
                "neighbouring dictionary (warm-other), and warmed then asked inside labrea.cache.disabled(). Non-trivial = the four methods do not all succeed nor all fail; distinct by hash of "
                "(expression, dictionary, first dictionary). Correspondence: histories ask-evaluate-ask on one long-lived graph.",
        "samples": sample,
        "traces_validated_against_impl": stats["ops"],
        "correspondence_mismatches": mism[:5],
        "violations": violations,
        "known": known,
        "distribution": dict(stats, quadruples=checks, outcome_patterns_validate_keys_explain_evaluate=dist, oracle_failures_tagged=tagged,
                             scenarios=len(cases)),
        "exhaustive": False,
        "assumptions": ["user code is deterministic; 'bodies total' is read off the scenario (no reachable function is declared partial, no reachable bind function is partial) and "
                        "'values in their domains' off the observations (no domain / user failure among the three methods)",
                        "a failure is a missing-option failure when the deepest classified exception of the __cause__ chain is KeyNotFoundError",
                        "the theorems are about the cache-free reference instance; cold/warm caches are covered by this run only (PARTIAL)"],
        "trusted_base": ["chooser positions are recomputed from the scenario syntax tree by this module (children/chooser_fids), independently of the model"],
    }


def replay_verdict(fails, agrees):
    """fails: [(kind, detail, candidate findings)].  A failure inside the zone of a recorded finding
    that the model reproduces is the recorded finding, not a regression."""
    new = [(k, d) for k, d, c in fails if not (c and agrees)]
    known = [(k, c[0]) for k, d, c in fails if c and agrees]
    return new, known


def replay(ctx, payload):
    scn = cp.load_scn(payload["scenario_repr"])
    i = payload["expr_index"]
    o = eval(payload["options"], {"S": S})
    first = None if payload.get("first") is None else eval(payload["first"], {"S": S})
    q = quad(scn, i, o, first)
    agrees, dirty = model_info(ctx, "Replay_C10", [(scn, i, o, first)])[0]
    new, known = replay_verdict(oracle_c10(scn, i, o, q, first), agrees)
    return bool(new) or not agrees, dict(oracle_failures=new, recorded_findings_on_this_input=known, observed=q, model_agrees=agrees)
