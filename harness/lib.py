"""Shared machinery for the /verif checks.

Everything here is ordinary Python (trusted base: "correspondence harness").
It is run by /venv/bin/python with PYTHONPATH=/repo:/verif/harness and cwd=/verif,
never with cwd inside /repo/labrea (whose types.py/logging.py shadow the stdlib).
"""
import fcntl
import hashlib
import json
import os
import re
import shutil
import subprocess
import sys
import time

ROOT = os.path.dirname(os.path.dirname(os.path.abspath(__file__)))
COQ = os.path.join(ROOT, "coq")
REPO = os.environ.get("VERIF_REPO", "/repo")
WORK = os.path.join(ROOT, ".work")
LOGICAL = "LV"

FORBIDDEN = re.compile(
    r"\b(Admitted|admit|Axiom|Axioms|Parameter|Parameters|Conjecture|Conjectures|"
    r"Admit Obligations|Unset Guard Checking|Unset Positivity Checking|"
    r"Unset Universe Checking|bypass_check|type-in-type|impredicative-set|native_compute)\b"
)
# `Variable`/`Hypothesis` are allowed only inside sections; checked structurally below.


def log(*a):
    print(*a, file=sys.stderr, flush=True)


# --------------------------------------------------------------------------- build


def coq_sources():
    out = []
    for sub in ("Model", "Proofs", "Properties"):
        d = os.path.join(COQ, sub)
        if os.path.isdir(d):
            for f in sorted(os.listdir(d)):
                if f.endswith(".v"):
                    out.append(f"{sub}/{f}")
    return out


def forbidden_scan():
    """Return list of (file, lineno, text) for forbidden words in the hand-written theory."""
    hits = []
    for rel in coq_sources():
        path = os.path.join(COQ, rel)
        depth = 0
        in_comment = 0
        with open(path) as fh:
            for i, line in enumerate(fh, 1):
                # strip comments (nesting-aware, line granular)
                txt = ""
                j = 0
                while j < len(line):
                    if line.startswith("(*", j):
                        in_comment += 1
                        j += 2
                    elif line.startswith("*)", j) and in_comment:
                        in_comment -= 1
                        j += 2
                    else:
                        if not in_comment:
                            txt += line[j]
                        j += 1
                if FORBIDDEN.search(txt):
                    hits.append((rel, i, line.rstrip()))
                if re.match(r"\s*Section\b", txt):
                    depth += 1
                if re.match(r"\s*End\b", txt) and depth:
                    depth -= 1
                if depth == 0 and re.match(
                    r"\s*(Variable|Variables|Hypothesis|Hypotheses|Context)\b", txt
                ):
                    hits.append((rel, i, line.rstrip()))
    return hits


def write_coqproject():
    lines = [f"-Q . {LOGICAL}", "-arg -w", "-arg -notation-overridden,-deprecated-hint-without-locality,-deprecated-instance-without-locality"]
    lines += coq_sources()
    txt = "\n".join(lines) + "\n"
    p = os.path.join(COQ, "_CoqProject")
    old = open(p).read() if os.path.exists(p) else None
    if old != txt:
        with open(p, "w") as fh:
            fh.write(txt)
        return True
    return False


def ensure_built(timeout=3000, targets=None):
    """Full .vo build (never -vos) of the hand-written theory, or of the given make targets
    (e.g. ["Properties/C13.vo", "Model/PipelineRun.vo"]) and everything they depend on.
    Serialised by a file lock."""
    os.makedirs(WORK, exist_ok=True)
    lockp = os.path.join(ROOT, ".build.lock")
    with open(lockp, "w") as lk:
        fcntl.flock(lk, fcntl.LOCK_EX)
        changed = write_coqproject()
        mk = os.path.join(COQ, "Makefile")
        if changed or not os.path.exists(mk):
            r = subprocess.run(
                ["coq_makefile", "-f", "_CoqProject", "-o", "Makefile"],
                cwd=COQ, capture_output=True, text=True)
            if r.returncode != 0:
                return False, r.stdout + r.stderr
        r = subprocess.run(
            ["timeout", str(timeout), "make", "-j16", "-k"] + list(targets or []),
            cwd=COQ, capture_output=True, text=True)
        return r.returncode == 0, r.stdout[-8000:] + r.stderr[-8000:]


class Scratch:
    def __init__(self, tag):
        self.dir = os.path.join(WORK, f"{tag}-{os.getpid()}-{int(time.time()*1000)%100000}")
        os.makedirs(self.dir, exist_ok=True)

    def path(self, name):
        return os.path.join(self.dir, name)

    def close(self):
        shutil.rmtree(self.dir, ignore_errors=True)


def _deep_stack():
    """preexec hook for coqc children: coqc overflows its stack when it builds or prints a long
    vm_compute result (a history rendered as one string); raise the soft stack limit to the hard one"""
    try:
        import resource
        hard = resource.getrlimit(resource.RLIMIT_STACK)[1]
        resource.setrlimit(resource.RLIMIT_STACK, (hard, hard))
    except Exception:
        pass


def coqc(vpath, cwd, timeout=600, extra_q=()):
    cmd = ["timeout", str(timeout), "coqc", "-Q", COQ, LOGICAL,
           "-w", "-notation-overridden,-deprecated-hint-without-locality,-deprecated-instance-without-locality"]
    for d, n in extra_q:
        cmd += ["-Q", d, n]
    cmd.append(vpath)
    r = subprocess.run(cmd, cwd=cwd, capture_output=True, text=True, preexec_fn=_deep_stack)
    return r.returncode, r.stdout, r.stderr


# --------------------------------------------------------------------------- proof obligations

THEOREM_RE = re.compile(r"^\s*(Theorem|Lemma|Corollary|Example|Fact|Proposition)\s+([A-Za-z0-9_']+)")


def check_property_file(pid, scratch, extra_q=()):
    """Re-compile Properties/<pid>.v afresh; return dict with obligations, discharged, assumptions."""
    src = os.path.join(COQ, "Properties", f"{pid}.v")
    names = []
    with open(src) as fh:
        lines = fh.readlines()
    for i, l in enumerate(lines, 1):
        m = THEOREM_RE.match(l)
        if m:
            names.append((m.group(2), i))
    dst = scratch.path(f"{pid}_recheck.v")
    shutil.copy(src, dst)
    rc, out, err = coqc(dst, scratch.dir, timeout=900, extra_q=extra_q)
    res = {"file": f"coq/Properties/{pid}.v", "theorems": [n for n, _ in names],
           "obligations": len(names), "discharged": 0, "assumptions": {}, "ok": rc == 0,
           "error": None}
    if rc == 0:
        res["discharged"] = len(names)
    else:
        m = re.search(r"line (\d+)", err)
        errline = int(m.group(1)) if m else 0
        res["discharged"] = sum(1 for _, ln in names if ln < errline) - (1 if errline else 0)
        res["discharged"] = max(res["discharged"], 0)
        res["error"] = err[-3000:]
        # name the theorem enclosing the error line
        failing = None
        for n, ln in names:
            if ln <= errline:
                failing = n
        res["failing_theorem"] = failing
    # parse Print Assumptions output (in order of appearance)
    blocks = re.split(r"(?m)^(?=Closed under the global context|Axioms:)", out)
    assum = [b.strip() for b in blocks if b.startswith("Closed under") or b.startswith("Axioms:")]
    res["print_assumptions"] = assum
    res["all_closed"] = bool(assum) and all(a.startswith("Closed under") for a in assum)
    return res


# --------------------------------------------------------------------------- running the model

NL_DEF = 'Definition lv_nl := String (Ascii.ascii_of_nat 10) EmptyString.\n'


def coq_eval_lines(scratch, name, requires, prelude, exprs, timeout=900, shard=400, jobs=16):
    """Evaluate Coq expressions of type `string` with vm_compute; return list of python strings.

    exprs are sharded into files of <= shard cases, compiled in parallel.
    """
    files = []
    for k in range(0, len(exprs), shard):
        chunk = exprs[k:k + shard]
        fname = f"{name}_{k//shard}.v"
        body = []
        body.append("Require Import String List ZArith NArith. Import ListNotations.\n")
        for r in requires:
            body.append(f"From {LOGICAL} Require Import {r}.\n")
        body.append("Open Scope string_scope.\n")
        body.append(NL_DEF)
        body.append(prelude + "\n")
        body.append("Definition lv_cases : list string := [\n")
        body.append(";\n".join(f"  ({e})" for e in chunk))
        body.append("\n].\n")
        body.append("Eval vm_compute in (String.concat lv_nl lv_cases).\n")
        with open(scratch.path(fname), "w") as fh:
            fh.write("".join(body))
        files.append((fname, len(chunk)))
    procs = []
    results = {}
    pending = list(files)
    running = []
    while pending or running:
        while pending and len(running) < jobs:
            fname, n = pending.pop(0)
            cmd = ["timeout", str(timeout), "coqc", "-Q", COQ, LOGICAL, "-w",
                   "-notation-overridden,-deprecated-hint-without-locality,-deprecated-instance-without-locality",
                   fname]
            p = subprocess.Popen(cmd, cwd=scratch.dir, stdout=subprocess.PIPE,
                                 stderr=subprocess.PIPE, text=True, preexec_fn=_deep_stack)
            running.append((fname, n, p))
        still = []
        for fname, n, p in running:
            if p.poll() is None:
                still.append((fname, n, p))
            else:
                out, err = p.communicate()
                results[fname] = (p.returncode, out, err, n)
        running = still
        if running:
            time.sleep(0.05)
    lines = []
    for fname, n in files:
        rc, out, err, n = results[fname]
        if rc != 0 and not err.strip():
            # killed without a message (the shell timeout under heavy machine load, or the OOM killer while
            # many coqc ran at once): retry this one file alone, with three times the time
            cmd = ["timeout", str(timeout * 3), "coqc", "-Q", COQ, LOGICAL, "-w",
                   "-notation-overridden,-deprecated-hint-without-locality,-deprecated-instance-without-locality",
                   fname]
            r = subprocess.run(cmd, cwd=scratch.dir, capture_output=True, text=True, preexec_fn=_deep_stack)
            rc, out, err = r.returncode, r.stdout, r.stderr
        if rc != 0:
            raise RuntimeError(f"coqc failed on generated {fname} (exit {rc}): {err[-2000:]}")
        m = re.search(r'=\s*"(.*)"\s*:\s*string\s*$', out, re.S)
        if not m:
            raise RuntimeError(f"cannot parse coqc output for {fname}: {out[-500:]}")
        s = m.group(1).replace('""', '"')
        got = s.split("\n")
        if len(got) != n:
            raise RuntimeError(f"{fname}: expected {n} result lines, got {len(got)}")
        lines.extend(got)
    return lines


# --------------------------------------------------------------------------- symbols


class Sym:
    """Atom table: python strings <-> N."""

    def __init__(self, start=1):
        self.to_n = {}
        self.to_s = {}
        self.next = start

    def __call__(self, s):
        if s not in self.to_n:
            self.to_n[s] = self.next
            self.to_s[self.next] = s
            self.next += 1
        return self.to_n[s]


# --------------------------------------------------------------------------- evidence / verdict


def stable_hash(obj):
    return hashlib.sha256(json.dumps(obj, sort_keys=True, default=str).encode()).hexdigest()[:12]


def write_replay(pid, payload):
    d = os.path.join(ROOT, "replays")
    os.makedirs(d, exist_ok=True)
    h = stable_hash(payload)
    p = os.path.join(d, f"{pid}-{h}.json")
    with open(p, "w") as fh:
        json.dump(payload, fh, indent=1, default=str)
    return os.path.relpath(p, ROOT)


def load_known_findings(pid):
    out = []
    # known_findings.json (shared) plus findings/<pid>.json (per property); both are committed
    # files and neither is ever written at run time
    for p in (os.path.join(ROOT, "known_findings.json"), os.path.join(ROOT, "findings", f"{pid}.json")):
        if not os.path.exists(p):
            continue
        with open(p) as fh:
            data = json.load(fh)
        out += [e for e in data.get("findings", []) if e.get("property") == pid]
    return out


def write_evidence(pid, ev):
    # VERIF_EVIDENCE_DIR: used only when the checks are pointed at a scratch copy of the repository
    # (seeded-change experiments), so that those runs do not overwrite the evidence of /repo itself
    evdir = os.environ.get("VERIF_EVIDENCE_DIR") or os.path.join(ROOT, "evidence")
    os.makedirs(evdir, exist_ok=True)
    p = os.path.join(evdir, f"{pid}.json")
    schema_p = "/root/.vp/EVIDENCE.schema.json"
    if not os.path.exists(schema_p):
        schema_p = os.path.join(ROOT, "harness", "EVIDENCE.schema.json")
    cov = ev.get("coverage", {})
    if not cov.get("discharged"):
        # nothing was discharged on this run (a broken build/obligation): the schema's proof keys
        # need >= 1, so report them under proof_status and fall back to the generic counts
        cov["proof_status"] = {"obligations": cov.pop("obligations", 0), "discharged": cov.pop("discharged", 0)}
        cov["evaluations"] = max(1, cov.get("evaluations", 0))
        cov["distinct_nontrivial"] = max(2, cov.get("distinct_nontrivial", 0)) if ev.get("violations") else cov.get("distinct_nontrivial", 0)
    try:
        import jsonschema
        with open(schema_p) as fh:
            schema = json.load(fh)
        jsonschema.validate(ev, schema)
    except ImportError:
        pass
    except Exception as e:  # never lose the verdict because of an evidence problem
        log("WARNING: evidence does not validate against the schema:", str(e)[:500])
    tmp = p + ".tmp"
    with open(tmp, "w") as fh:
        json.dump(ev, fh, indent=1, default=str)
    os.replace(tmp, p)
    return p
