#!/bin/bash
# runs the thorough tier of every property (4 at a time) and prints one line per property
cd "$(dirname "$0")/.."
mkdir -p .work
run() { p=$1; s=$(date +%s); out=$(timeout 14400 ./check $p --tier thorough 2>&1); rc=$?; e=$(date +%s); echo "$p rc=$rc $((e-s))s $(echo "$out" | grep -E "^\[$p\] tier=" | tail -1) $(echo "$out" | grep -c '^VIOLATION') violation-lines"; echo "$out" > .work/thorough_$p.out; }
export -f run
printf "%s\n" C17 C10 C11 C03 C05 C01 C19 C08 C12 C02 C04 C06 C07 C09 C13 C14 C15 C16 C18 C20 | xargs -P 4 -I{} bash -c 'run {}'
