#!/bin/bash
# Independent re-check of the compiled theory with coqchk (prints the axioms every loaded library relies on).
# usage: notes/coqchk_all.sh [C01 C02 ...]   (default: every property file); writes notes/coqchk.log
cd /verif/coq || exit 2
props="$@"; [ -z "$props" ] && props=$(ls Properties/*.v | sed 's#Properties/##; s#\.v##')
: > /verif/notes/coqchk.log
for p in $props; do
  echo "=== LV.Properties.$p" >> /verif/notes/coqchk.log
  ( /usr/bin/time -f "wall %es maxrss %MkB" timeout 3600 coqchk -silent -o -Q . LV LV.Properties.$p ) >> /verif/notes/coqchk.log 2>&1
  echo "exit=$?" >> /verif/notes/coqchk.log
done
