#!/usr/bin/env python3
"""Measured detection table: every seeded change under /verif/seeded/<PID>-*seed*/ is applied to a
scratch copy of /repo (never to /repo) and the quick check of ITS OWN property is run against the
copy.  Result per seed: 'failing input' (a VIOLATION line with a replay of a concrete input),
'proof/correspondence only' (only VIOLATION ... no-failing-input-found), or 'missed'.

usage: notes/detect_all.py [-j N] [--match SUBSTR] [PID ...]      writes seeded/detection_results.json and prints a table
"""
import concurrent.futures as cf
import json
import os
import shutil
import subprocess
import sys
import tempfile

ROOT = "/verif"


def run_one(seed):
    pid = seed.split("-")[0]
    patch = os.path.join(ROOT, "seeded", seed, "patch.diff")
    d = tempfile.mkdtemp(prefix="mut", dir="/tmp")
    try:
        shutil.copytree("/repo", os.path.join(d, "repo"))
        r = subprocess.run(["git", "apply", patch], cwd=os.path.join(d, "repo"), capture_output=True, text=True)
        if r.returncode != 0:
            return seed, dict(result="patch does not apply", detail=r.stderr[-300:])
        env = dict(os.environ, VERIF_REPO=os.path.join(d, "repo"), VERIF_EVIDENCE_DIR=os.path.join(d, "evidence"))
        try:
            r = subprocess.run(["./check", pid, "--tier", "quick"], cwd=ROOT, env=env, capture_output=True, text=True, timeout=3600)
        except subprocess.TimeoutExpired:
            return seed, dict(result="timeout")
        out = r.stdout + r.stderr
        viol = [l for l in out.splitlines() if l.startswith("VIOLATION")]
        with_input = [l for l in viol if "no-failing-input-found" not in l]
        summary = [l for l in out.splitlines() if l.startswith(f"[{pid}] tier=")]
        if with_input:
            res = "failing input"
        elif viol:
            res = "proof/correspondence only"
        elif r.returncode != 0:
            res = "check error (exit %d)" % r.returncode
        else:
            res = "missed"
        return seed, dict(result=res, exit=r.returncode, violations=len(viol), with_input=len(with_input),
                          summary=summary[-1] if summary else "")
    finally:
        shutil.rmtree(d, ignore_errors=True)


def main():
    args = sys.argv[1:]
    jobs = 4
    if args[:1] == ["-j"]:
        jobs = int(args[1]); args = args[2:]
    match = None
    if args[:1] == ["--match"]:
        match = args[1]; args = args[2:]
    seeds = sorted(s for s in os.listdir(os.path.join(ROOT, "seeded"))
                   if os.path.isfile(os.path.join(ROOT, "seeded", s, "patch.diff")) and (not args or s.split("-")[0] in args)
                   and (match is None or match in s))
    path = os.path.join(ROOT, "seeded", "detection_results.json")
    results = json.load(open(path)) if os.path.exists(path) else {}
    with cf.ThreadPoolExecutor(jobs) as ex:
        for seed, res in ex.map(run_one, seeds):
            results[seed] = res
            print(f"{seed:14s} {res['result']:28s} {res.get('summary', '')[:110]}", flush=True)
            json.dump(results, open(path, "w"), indent=1, sort_keys=True)


if __name__ == "__main__":
    main()
