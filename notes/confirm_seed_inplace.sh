#!/bin/bash
# usage: confirm_seed_inplace.sh <worktree> <k> <dest name>  -- for demos that insist on being run from their own scratch worktree
wt="$1"; k="$2"; name="$3"
cd "$wt" || exit 2
git checkout -- . 2>/dev/null
PYTHONPATH="$wt" /venv/bin/python seed$k/demo.py > /tmp/cs_d0.out 2>&1; rc0=$?
git apply seed$k/patch.diff || { echo "$name: PATCH DOES NOT APPLY"; exit 2; }
PYTHONPATH="$wt" /venv/bin/python -m pytest -q -p no:cacheprovider --timeout=900 > /tmp/cs_s.out 2>&1; rcs=$?
PYTHONPATH="$wt" /venv/bin/python seed$k/demo.py > /tmp/cs_d1.out 2>&1; rc1=$?
git checkout -- .
ok=no; if [ $rc0 -eq 0 ] && [ $rcs -eq 0 ] && [ $rc1 -ne 0 ]; then ok=yes; fi
echo "$name: demo_unpatched_rc=$rc0 suite_rc=$rcs ($(tail -1 /tmp/cs_s.out)) demo_patched_rc=$rc1 confirmed=$ok"
if [ $ok = yes ]; then
  mkdir -p /verif/seeded/$name; cp seed$k/patch.diff seed$k/demo.py /verif/seeded/$name/
  /venv/bin/python - seed$k/meta.json /verif/seeded/$name/meta.json "$(tail -1 /tmp/cs_s.out)" "$(tail -2 /tmp/cs_d1.out | tr '\n' ' ' | cut -c1-400)" "$wt" <<'PY'
import json, sys
m = json.load(open(sys.argv[1]))
m["confirmed"] = {"demo_on_unmodified": "PASS (exit 0)", "suite_with_patch": sys.argv[3], "demo_with_patch": "fails: " + sys.argv[4],
                  "how": f"notes/confirm_seed_inplace.sh in the scratch worktree {sys.argv[5]} (the demo asserts labrea is imported from its worktree): demo unpatched, git apply patch.diff, full pytest suite, demo again, git checkout -- ."}
json.dump(m, open(sys.argv[2], "w"), indent=1)
PY
fi
