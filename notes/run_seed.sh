#!/bin/bash
# usage: run_seed.sh <patch.diff> <PID> [<PID>...]   -- applies the patch to a scratch copy of /repo and runs the quick checks against it
patch="$1"; shift
d=$(mktemp -d /tmp/mutXXXXXX)
cp -r /repo "$d/repo"
( cd "$d/repo" && git apply "$patch" ) || { echo "PATCH DOES NOT APPLY"; rm -rf "$d"; exit 2; }
cd /verif
for p in "$@"; do
  out=$(VERIF_REPO="$d/repo" VERIF_EVIDENCE_DIR="$d/evidence" ./check "$p" --tier quick 2>&1 | grep -E "VIOLATION|^\[$p\]" | head -3)
  echo "== $p: $out"
done
rm -rf "$d"
