#!/bin/bash
# usage: confirm_seed.sh <seed dir with patch.diff demo.py meta.json> <dest name under /verif/seeded>
# Confirms in a scratch copy of /repo: demo passes unpatched; with the patch the suite still passes and the demo fails.
src="$1"; name="$2"
d=$(mktemp -d /tmp/confXXXXXX)
cp -r /repo "$d/repo"; cd "$d/repo"
cp "$src/demo.py" "$d/demo.py"
PYTHONPATH="$d/repo" /venv/bin/python "$d/demo.py" > "$d/demo0.out" 2>&1; rc0=$?
git apply "$src/patch.diff" || { echo "$name: PATCH DOES NOT APPLY"; rm -rf "$d"; exit 2; }
PYTHONPATH="$d/repo" /venv/bin/python -m pytest -q -p no:cacheprovider --timeout=900 > "$d/suite.out" 2>&1; rcs=$?
suite=$(tail -1 "$d/suite.out")
PYTHONPATH="$d/repo" /venv/bin/python "$d/demo.py" > "$d/demo1.out" 2>&1; rc1=$?
ok=no; if [ $rc0 -eq 0 ] && [ $rcs -eq 0 ] && [ $rc1 -ne 0 ]; then ok=yes; fi
echo "$name: demo_unpatched_rc=$rc0 suite_rc=$rcs ($suite) demo_patched_rc=$rc1 confirmed=$ok"
if [ $ok = yes ]; then
  mkdir -p "/verif/seeded/$name"
  cp "$src/patch.diff" "$src/demo.py" "/verif/seeded/$name/"
  /venv/bin/python - "$src/meta.json" "/verif/seeded/$name/meta.json" "$suite" "$(tail -2 $d/demo1.out | tr '\n' ' ' | cut -c1-400)" <<'PY'
import json, sys
m = json.load(open(sys.argv[1]))
m["confirmed"] = {"demo_on_unmodified": "PASS (exit 0)", "suite_with_patch": sys.argv[3], "demo_with_patch": "fails: " + sys.argv[4],
                  "how": "notes/confirm_seed.sh: scratch copy of /repo, demo unpatched, git apply patch.diff, full pytest suite, demo again"}
json.dump(m, open(sys.argv[2], "w"), indent=1)
PY
fi
rm -rf "$d"
